SPECIFICATION Spec
CONSTANTS
  Tier = "quick"
INVARIANT CodecInverse
INVARIANT GuaranteedRangeStorable
INVARIANT Injective
CHECK_DEADLOCK FALSE
