SPECIFICATION Spec
CONSTANTS
  MaxRows = 3
INVARIANT DenPreserved
INVARIANT Idempotent
INVARIANT DropsExactly
CHECK_DEADLOCK FALSE
