"""bin/selftest - demonstrates that the specification is BOUND to what is recorded:
one field of a recorded (passing) trace is corrupted per clause and TLC must
reject exactly that event with exactly that clause; an unmodified copy must
pass.  Also checks that the hooks are alive (poison allocator, loop observer).

Exit 0: every corruption was rejected as expected.  Exit 1 otherwise.
"""
from __future__ import annotations

import copy
import json
import os
import shutil
import sys

VERIF = os.path.dirname(os.path.dirname(os.path.abspath(__file__)))
sys.path.insert(0, VERIF)
os.environ.setdefault("PYTHONHASHSEED", "0")

from harness import pool, tlc  # noqa: E402
from harness.drivers import ring, options, shape, reduce as reduce_drv, order, dtype as dtype_drv, roundtrip, divide  # noqa: E402
from harness.project import num  # noqa: E402


def first_event(traces, pred):
    for tr in traces:
        for i, ev in enumerate(tr["events"]):
            if pred(ev):
                return tr, i
    raise SystemExit("selftest: no event found for a corruption")


def bump(numrec):
    """x -> x + 1 on an encoded Num."""
    out = copy.deepcopy(numrec)
    r = out["r"]
    v = 0
    for limb in reversed(r["m"]):
        v = v * 10000 + limb
    v = v * r["s"] + (1 << out["k"])
    out["r"] = num(v)["r"]
    return out


def corruptions():
    """(name, expected clause, traces, trace id, event line) with one corrupted field each."""
    out = []
    base = ring.generate(7, 6)
    # 1 value: change one coefficient of an arithmetic result
    tr, i = first_event(base, lambda e: e["act"] == "arith" and e["out"] == "ret" and e["res"][0]["kind"] == "poly"
                        and e["res"][0]["coefs"] and e["res"][0]["coefs"][0])
    t = copy.deepcopy(tr)
    t["events"][i]["res"][0]["coefs"][0][0] = bump(t["events"][i]["res"][0]["coefs"][0][0])
    t["events"] = t["events"][:i + 1]
    out.append(("value of an arithmetic result", "value", t, i + 1))
    # 2 shape
    tr, i = first_event(base, lambda e: e["act"] == "arith" and e["out"] == "ret" and len(e["res"][0].get("shape", [])) >= 1)
    t = copy.deepcopy(tr)
    r = t["events"][i]["res"][0]
    r["shape"] = [1] + r["shape"]
    r["cshapes"] = [[1] + s for s in r["cshapes"]]
    t["events"] = t["events"][:i + 1]
    out.append(("shape of an arithmetic result", "shape", t, i + 1))
    # 3 wellformed: a storage key that does not decode to its exponent row
    tr, i = first_event(base, lambda e: e["act"] == "arith" and e["out"] == "ret" and e["res"][0]["kind"] == "poly")
    t = copy.deepcopy(tr)
    t["events"][i]["res"][0]["keys"][0][0] += 1
    t["events"] = t["events"][:i + 1]
    out.append(("storage key of a result", "wellformed", t, i + 1))
    # 4 wellformed: duplicate exponent rows
    tr, i = first_event(base, lambda e: e["act"] == "arith" and e["out"] == "ret" and len(e["res"][0].get("rows", [])) >= 2)
    t = copy.deepcopy(tr)
    r = t["events"][i]["res"][0]
    r["rows"][1] = list(r["rows"][0])
    r["keys"][1] = list(r["keys"][0])
    r["vkeys"][1] = list(r["vkeys"][0])
    t["events"] = t["events"][:i + 1]
    out.append(("duplicate exponent rows", "wellformed", t, i + 1))
    # 5 frame: an operand's digest changes across a call
    tr, i = first_event(base, lambda e: e["act"] == "arith" and e["digests"])
    t = copy.deepcopy(tr)
    t["events"][i]["digests"][0] = "0" * 16
    t["events"] = t["events"][:i + 1]
    out.append(("digest of an argument after the call", "frame", t, i + 1))
    # 6 poison flag
    tr, i = first_event(base, lambda e: e["act"] == "arith" and e["out"] == "ret")
    t = copy.deepcopy(tr)
    t["events"][i]["res"][0]["poison"] = True
    t["events"] = t["events"][:i + 1]
    out.append(("poison pattern in a result", "poison", t, i + 1))
    # 7 options: the option record after an exit is not the saved one
    otr = options.generate(7, 6)
    tr, i = first_event(otr, lambda e: e["act"] in ("exit", "exit_exc"))
    t = copy.deepcopy(tr)
    t["events"][i]["opts"]["retain_names"] = not t["events"][i]["opts"]["retain_names"]
    t["events"] = t["events"][:i + 1]
    out.append(("option record after leaving a block", "options", t, i + 1))
    # 8 options: a rejected call that nevertheless changed an option
    tr, i = first_event(otr, lambda e: e["act"] in ("set_options", "enter") and e["bad"])
    t = copy.deepcopy(tr)
    t["events"][i]["opts"]["sort_graded"] = not t["events"][i]["opts"]["sort_graded"]
    t["events"] = t["events"][:i + 1]
    out.append(("option changed by a rejected call", "options", t, i + 1))
    # 9 move: two elements swapped
    str_ = shape.generate(7, 10)
    def differing_row(e):
        for r, row in enumerate(e["res"][0].get("coefs", [])):
            if len(row) >= 2 and row[0] != row[1]:
                return r
        return None
    tr, i = first_event(str_, lambda e: e["act"] == "move" and e["out"] == "ret" and e["res"][0]["kind"] == "poly"
                        and differing_row(e) is not None)
    t = copy.deepcopy(tr)
    c = t["events"][i]["res"][0]["coefs"][differing_row(t["events"][i])]
    c[0], c[1] = c[1], c[0]
    t["events"] = t["events"][:i + 1]
    out.append(("two elements of a moved array swapped", "value", t, i + 1))
    # 10 comparison verdict flipped
    otr2 = order.generate(7, 6)
    tr, i = first_event(otr2, lambda e: e["act"] == "compare" and e["out"] == "ret" and e["res"][0]["vals"])
    t = copy.deepcopy(tr)
    v = t["events"][i]["res"][0]["vals"][0]
    t["events"][i]["res"][0]["vals"][0] = num(0) if v["r"]["s"] else num(1)
    t["events"] = t["events"][:i + 1]
    out.append(("comparison verdict flipped", "value", t, i + 1))
    # 11 dtype of a promoted result
    dtr = dtype_drv.generate(7, 10)
    tr, i = first_event(dtr, lambda e: e["act"] == "dtype" and e.get("fn") == "arith" and e["out"] == "ret")
    t = copy.deepcopy(tr)
    r = t["events"][i]["res"][0]
    wrong = "float64" if r["dtype"] != "float64" else "int64"
    r["dtype"] = wrong
    r["cdtypes"] = [wrong for _ in r["cdtypes"]]
    t["events"] = t["events"][:i + 1]
    out.append(("dtype of a promoted result", "dtype", t, i + 1))
    # 12 pickle: a term lost
    rtr = roundtrip.generate(7, 10)
    tr, i = first_event(rtr, lambda e: e["act"] == "copy" and e["out"] == "ret" and len(e["res"][0]["rows"]) >= 2)
    t = copy.deepcopy(tr)
    r = t["events"][i]["res"][0]
    for key in ("rows", "keys", "coefs", "cshapes", "cdtypes"):
        r[key] = r[key][:-1]
    r["vkeys"] = r["vkeys"][:-1]
    t["events"] = t["events"][:i + 1]
    out.append(("a term lost across pickling / copying", "rows", t, i + 1))
    # 13 reduction value
    rdt = reduce_drv.generate(7, 10)
    tr, i = first_event(rdt, lambda e: e["act"] == "reduce" and e.get("fn") == "sum" and e["out"] == "ret" and e["res"][0]["coefs"]
                        and e["res"][0]["coefs"][0])
    t = copy.deepcopy(tr)
    t["events"][i]["res"][0]["coefs"][0][0] = bump(t["events"][i]["res"][0]["coefs"][0][0])
    t["events"] = t["events"][:i + 1]
    out.append(("value of a sum", "value", t, i + 1))
    return out, base + otr


def main():
    wd = tlc.scratch_dir()
    ok = True
    try:
        pool.install_poison()
        import numpy
        poisoned = bool((numpy.frombuffer(numpy.empty(4, dtype="int64").tobytes(), dtype=numpy.uint8) == 0xA5).all())
        print("hook poison allocator: %s" % ("alive" if poisoned else "NOT ACTIVE"))
        ok = ok and poisoned
        dv = divide.generate(3, 2)
        iters = [e.get("iterations", 0) for t in dv for e in t["events"] if e["act"] == "polydiv"]
        alive = any(n > 0 for n in iters)
        print("hook division-loop observer: %s (iterations logged: %s)" % ("alive" if alive else "NOT ACTIVE", iters[:6]))
        ok = ok and alive
        cases, clean = corruptions()
        v = tlc.validate_traces(clean, wd, "clean")
        print("unmodified traces: %d events, %d rejections" % (v["events"], len(v["failures"])))
        ok = ok and not v["failures"]
        for n, (name, clause, trace, line) in enumerate(cases):
            trace = dict(trace, id="selftest-%02d" % n)
            v = tlc.validate_traces([trace], wd, "corrupt%02d" % n, nproc=1)
            got = [(f["line"], f["clause"]) for f in v["failures"]]
            hit = (line, clause) in got
            print("%-45s expect (%d, %s): %s %s" % (name, line, clause, "REJECTED" if hit else "NOT REJECTED", got if not hit else ""))
            ok = ok and hit
    finally:
        shutil.rmtree(wd, ignore_errors=True)
    print("selftest %s" % ("ok" if ok else "FAILED"))
    return 0 if ok else 1


if __name__ == "__main__":
    sys.exit(main())
