----------------------------- MODULE PolyArray -----------------------------
(***************************************************************************)
(* Polynomial arrays as numpoly represents them (raw observation records   *)
(* produced by the projection, see harness/project.py) and what they       *)
(* denote.                                                                 *)
(*                                                                         *)
(* Observation of an ndpoly:                                               *)
(*   [kind |-> "poly", shape, dtype, names (numeric suffixes),             *)
(*    rows (exponent rows), keys / vkeys (code points of the storage keys  *)
(*    as the object reports them / as the raw structured view names them), *)
(*    coefs (per row, C-order list of Num), cshapes, cdtypes, poison, ...] *)
(* Observation of a number / numeric array:                                *)
(*   [kind |-> "array", shape, dtype, vals, ...]                           *)
(*                                                                         *)
(* Denotation: [shape |-> Seq(Nat), el |-> Seq(element polynomial)]        *)
(***************************************************************************)
EXTENDS Poly, Shape

KeyOffset == 59
ForbiddenCodePoint == 58

RowMono(names, row) ==
  LET idx == {j \in 1..Len(names) : row[j] > 0}
  IN [n \in {names[j] : j \in idx} |-> row[CHOOSE j \in idx : names[j] = n]]

Distinct(s) == \A i, j \in 1..Len(s) : i # j => s[i] # s[j]

\* ------------------------------------------------------------ well-formedness
\* returns "ok" or the name of the first violated sub-clause
WellFormedClause(v) ==
  IF v.kind # "poly" THEN "ok"
  ELSE IF Len(v.names) < 1 \/ ~Distinct(v.names) THEN "wf_names"
  ELSE IF \E r \in 1..Len(v.rows) : Len(v.rows[r]) # Len(v.names) THEN "wf_width"
  ELSE IF ~Distinct(v.rows) THEN "wf_duplicate_rows"
  ELSE IF Size(v.shape) > 0 /\ Len(v.coefs) # Len(v.rows) THEN "wf_coef_count"
  ELSE IF Size(v.shape) > 0 /\ \E r \in 1..Len(v.rows) :
             v.cshapes[r] # v.shape \/ v.cdtypes[r] # v.dtype \/ Len(v.coefs[r]) # Size(v.shape)
       THEN "wf_coef_shape_dtype"
  ELSE IF Len(v.keys) # Len(v.rows) \/ \E r \in 1..Len(v.rows) :
             v.keys[r] # [j \in 1..Len(v.names) |-> v.rows[r][j] + KeyOffset]
       THEN "wf_keys"
  ELSE IF Len(v.vkeys) < Len(v.rows) \/ \E r \in 1..Len(v.rows) : v.vkeys[r] # v.keys[r]
       THEN "wf_raw_view"
  ELSE "ok"
WellFormed(v) == WellFormedClause(v) = "ok"

\* ---------------------------------------------------------------- denotation
PolyDen(v) ==
  LET n == Size(v.shape)
      monos == [r \in 1..Len(v.rows) |-> RowMono(v.names, v.rows[r])]
      ms == {monos[r] : r \in 1..Len(v.rows)}
  IN [shape |-> v.shape,
      el |-> [k \in 1..n |->
                 EClean([m \in ms |-> v.coefs[CHOOSE r \in 1..Len(v.rows) : monos[r] = m][k]])]]
ArrayDen(v) == [shape |-> v.shape, el |-> [k \in 1..Size(v.shape) |-> EConst(v.vals[k])]]
Den(v) == IF v.kind = "poly" THEN PolyDen(v) ELSE ArrayDen(v)

DConst(d) == \A k \in 1..Len(d.el) : EIsConst(d.el[k])
DNames(d) == UNION {ENames(d.el[k]) : k \in 1..Len(d.el)}
DZeros(s) == [shape |-> s, el |-> [k \in 1..Size(s) |-> EZero]]
DScalar(f) == [shape |-> <<>>, el |-> <<f>>]

\* ------------------------------------------------------ element-wise lifting
Lift1(Op(_), a) == [shape |-> a.shape, el |-> [k \in 1..Len(a.el) |-> Op(a.el[k])]]
Lift2(Op(_, _), a, b) ==
  LET t == BShape2(a.shape, b.shape)
  IN [shape |-> t,
      el |-> [k \in 1..Size(t) |-> Op(a.el[BSrc(k, t, a.shape)], b.el[BSrc(k, t, b.shape)])]]
DBroadcast(a, t) == [shape |-> t, el |-> [k \in 1..Size(t) |-> a.el[BSrc(k, t, a.shape)]]]
\* apply a gather map to a sequence of operand denotations
DGather(g, ds) ==
  [shape |-> g.shape,
   el |-> [k \in 1..Len(g.src) |->
             IF g.src[k][1] = 0 THEN EZero ELSE ds[g.src[k][1]].el[g.src[k][2]]]]

DAdd(a, b) == Lift2(EAdd, a, b)
DSub(a, b) == Lift2(ESub, a, b)
DMul(a, b) == Lift2(EMul, a, b)
DNeg(a) == Lift1(ENeg, a)
\* power: exponent array holds non-negative integer constants
ExpOf(f) == IF f = EZero THEN 0 ELSE BToInt(f[MOne].r)
IsNatConst(f) == f = EZero \/ (EIsConst(f) /\ f[MOne].k = 0 /\ f[MOne].i.s = 0
                                 /\ f[MOne].r.s = 1 /\ BIsSmall(f[MOne].r))
DPow(a, b) == Lift2(LAMBDA f, e : EPow(f, ExpOf(e)), a, b)
DArith(op, a, b) == CASE op = "add" -> DAdd(a, b) [] op = "sub" -> DSub(a, b)
                      [] op = "mul" -> DMul(a, b) [] op = "pow" -> DPow(a, b)

\* ------------------------------------------------------------------ reductions
DSumAxes(a, A, keepdims) ==
  LET t == ReduceShape(a.shape, A, keepdims)
  IN [shape |-> t,
      el |-> [k \in 1..Size(t) |->
                 FoldSet(LAMBDA p, acc : EAdd(acc, a.el[p]), EZero, ReduceSrc(k, a.shape, A, keepdims))]]
DProdAxes(a, A, keepdims) ==
  LET t == ReduceShape(a.shape, A, keepdims)
  IN [shape |-> t,
      el |-> [k \in 1..Size(t) |->
                 FoldSet(LAMBDA p, acc : EMul(acc, a.el[p]), EOne, ReduceSrc(k, a.shape, A, keepdims))]]
AllAxes(s) == 0..(Len(s) - 1)
\* cumulative sum along 0-based axis ax (shape preserved)
DCumSumAxis(a, ax) ==
  [shape |-> a.shape,
   el |-> [k \in 1..Len(a.el) |->
      LET mi == Unravel(k - 1, a.shape)
      IN FoldSet(LAMBDA j, acc : EAdd(acc,
                    a.el[1 + Ravel([x \in 1..Len(mi) |-> IF x = ax + 1 THEN j ELSE mi[x]], a.shape)]),
                 EZero, 0..mi[ax + 1])]]
DRavel(a) == [shape |-> <<Len(a.el)>>, el |-> a.el]

\* --------------------------------------- attribute triples and cleaning (C03)
\* an attribute triple: [rows, coefs (per row list of Num), names, shape]
\* all-zero row
RowIsZero(coefs, r) == \A k \in 1..Len(coefs[r]) : NIsZero(coefs[r][k])
RowIsConst(rows, r) == \A j \in 1..Len(rows[r]) : rows[r][j] = 0
\* rows kept by cleaning: non-zero rows (order preserved); if nothing is left, a
\* single constant row.  names kept: those with some positive exponent in a kept
\* row; if none is left, the first name.
KeptRows(rows, coefs, retainCoef) ==
  IF retainCoef THEN [r \in 1..Len(rows) |-> r]
  ELSE SelectSeq([r \in 1..Len(rows) |-> r], LAMBDA r : ~RowIsZero(coefs, r))
UsedCols(rows, keptRows, nnames) ==
  SelectSeq([j \in 1..nnames |-> j], LAMBDA j : \E i \in 1..Len(keptRows) : rows[keptRows[i]][j] > 0)
=============================================================================
