----------------------------- MODULE MC_Options -----------------------------
(***************************************************************************)
(* Bounded model for C14: the option machine over a few modelled keys,     *)
(* with every interleaving of set_options / enter / exit (normal and by    *)
(* exception) / rejected calls / detached copies.  The history is hidden   *)
(* by a VIEW; `last` records the action just taken so that the dumped      *)
(* graph (-dump dot,actionlabels) can be replayed edge by edge on the real *)
(* numpoly.global_options / set_options / get_options.                     *)
(***************************************************************************)
EXTENDS Options, Naturals, FiniteSets, TLC

CONSTANTS MaxDepth, MaxLen, NKeys

VARIABLES opts, ctx, last, n, base
vars == <<opts, ctx, last, n, base>>
view == <<opts, ctx, last>>

ModelKeys == IF NKeys = 2 THEN {"retain_names", "sort_graded"}
             ELSE {"retain_names", "sort_graded", "display_inverse"}
\* keyword records: every non-empty assignment of booleans to a subset of the modelled keys
KwSets == UNION {[S -> BOOLEAN] : S \in (SUBSET ModelKeys) \ {{}}}
BadSets == {<<>>, <<"unknown_option">>}
Thrown == {"ValueError"}
NoLast == [act |-> "init", kw |-> <<>>, bad |-> <<>>, thrown |-> ""]

Init == opts = DefaultOptions /\ ctx = <<>> /\ last = NoLast /\ n = 0 /\ base = DefaultOptions

SetOptions(kw, bad) ==
  /\ opts' = SetOptionsOpts(opts, kw, bad) /\ ctx' = ctx
  /\ base' = IF ctx = <<>> THEN opts' ELSE base
  /\ last' = [act |-> "set_options", kw |-> kw, bad |-> bad, thrown |-> ""]
Enter(kw, bad) ==
  /\ Len(ctx) < MaxDepth
  /\ opts' = EnterOpts(opts, kw, bad) /\ ctx' = EnterCtx(opts, ctx, kw, bad) /\ base' = base
  /\ last' = [act |-> "enter", kw |-> kw, bad |-> bad, thrown |-> ""]
ExitNormal ==
  /\ ctx # <<>> /\ opts' = ExitOpts(opts, ctx) /\ ctx' = ExitCtx(ctx) /\ base' = base
  /\ last' = [act |-> "exit", kw |-> <<>>, bad |-> <<>>, thrown |-> ""]
ExitByException(e) ==
  /\ ctx # <<>> /\ opts' = ExitOpts(opts, ctx) /\ ctx' = ExitCtx(ctx) /\ base' = base
  /\ last' = [act |-> "exit_exc", kw |-> <<>>, bad |-> <<>>, thrown |-> e]
GetMutate ==
  /\ UNCHANGED <<opts, ctx, base>>
  /\ last' = [act |-> "get_mutate", kw |-> <<>>, bad |-> <<>>, thrown |-> ""]
GetDefaults ==
  /\ UNCHANGED <<opts, ctx, base>>
  /\ last' = [act |-> "get_defaults", kw |-> <<>>, bad |-> <<>>, thrown |-> ""]

Next == /\ n < MaxLen /\ n' = n + 1
        /\ \/ \E kw \in KwSets, bad \in BadSets : SetOptions(kw, bad)
           \/ \E bad \in {<<"unknown_option">>} : SetOptions(<<>>, bad)
           \/ \E kw \in KwSets, bad \in BadSets : Enter(kw, bad)
           \/ ExitNormal
           \/ \E e \in Thrown : ExitByException(e)
           \/ GetMutate \/ GetDefaults
Spec == Init /\ [][Next]_vars

\* ------------------------------------------------------------------ properties
TypeOK == /\ DOMAIN opts = OptionKeys /\ Len(ctx) <= MaxDepth
          /\ \A i \in 1..Len(ctx) : DOMAIN ctx[i] = OptionKeys
\* the outermost saved record is what was in force when no block was open
OutermostIsBase == ctx # <<>> => ctx[1] = base
\* leaving a block restores the COMPLETE record saved on entry, whatever happened inside
RestoreOnExit == [][last'.act \in {"exit", "exit_exc"} => (opts' = ctx[Len(ctx)] /\ ctx' = SubSeq(ctx, 1, Len(ctx) - 1))]_vars
RestoreToBase == [][(last'.act \in {"exit", "exit_exc"} /\ Len(ctx) = 1) => opts' = base]_vars
\* an unknown option name changes nothing and opens nothing
BadKeyChangesNothing == [][last'.bad # <<>> => (opts' = opts /\ ctx' = ctx)]_vars
\* exactly the given options change
OnlyGivenKeysChange ==
  [][(last'.act \in {"set_options", "enter"} /\ last'.bad = <<>>) =>
       \A k \in OptionKeys : opts'[k] = IF k \in DOMAIN last'.kw THEN last'.kw[k] ELSE opts[k]]_vars
EnterPushes == [][(last'.act = "enter" /\ last'.bad = <<>>) => ctx' = Append(ctx, opts)]_vars
ReadsChangeNothing == [][last'.act \in {"get_mutate", "get_defaults"} => (opts' = opts /\ ctx' = ctx)]_vars
UnmodelledKeysConstant == \A k \in OptionKeys \ ModelKeys : opts[k] = DefaultOptions[k]
=============================================================================
