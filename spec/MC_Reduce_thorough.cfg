SPECIFICATION Spec
CONSTANTS
  Tier = "thorough"
INVARIANT OrderIrrelevant
INVARIANT SumOfEverything
INVARIANT CumSumEndsInSum
INVARIANT ShapesAgree
CHECK_DEADLOCK FALSE
