------------------------------ MODULE MC_Sort ------------------------------
(***************************************************************************)
(* Bounded model for C18: every key matrix of a small universe and every   *)
(* parameter vector of the index generators.  TLC checks that the          *)
(* specification's order is a strict total order on the universe (so       *)
(* "sorted" is well defined) and basic laws of the index sets; the         *)
(* enumerated vectors are replayed on glexsort / glexindex / bindex /      *)
(* cross_truncate / monomial and judged by Trace.tla.                      *)
(***************************************************************************)
EXTENDS Monomial

CONSTANTS Rows, Cols, MaxEntry, MaxDim, MaxBound

VARIABLES vec
Flags == BOOLEAN \X BOOLEAN
Norms == {"0", "1", "2", "inf"}
KeyVectors == {[kind |-> "glexsort", keys |-> m, graded |-> f[1], reverse |-> f[2]] :
                  m \in [1..Rows -> [1..Cols -> 0..MaxEntry]], f \in Flags}
IndexVectors ==
  UNION {{[kind |-> "glexindex", start |-> s, stop |-> t, qlow |-> q[1], qup |-> q[2], graded |-> f[1], reverse |-> f[2]] :
             s \in [1..d -> 0..MaxBound], t \in [1..d -> 1..MaxBound], q \in {<<"1", "1">>, <<"0", "0">>, <<"2", "2">>, <<"inf", "inf">>, <<"inf", "1">>}, f \in Flags}
         : d \in 1..MaxDim}
Universe == KeyVectors \cup IndexVectors

Init == vec = [kind |-> "none"]
Next == vec.kind = "none" /\ \E v \in Universe : vec' = v
Spec == Init /\ [][Next]_vec

\* ------------------------------------------------------------------ laws
Columns(m) == [c \in 1..Cols |-> [r \in 1..Rows |-> m[r][c]]]
\* the order on key columns is a strict total order: irreflexive, total, transitive
OrderIsStrictTotal ==
  vec.kind = "glexsort" =>
    LET cs == {Columns(vec.keys)[c] : c \in 1..Cols}
        L(a, b) == TLess(a, b, vec.graded, vec.reverse)
    IN /\ \A a \in cs : ~L(a, a)
       /\ \A a, b \in cs : a = b \/ L(a, b) \/ L(b, a)
       /\ \A a, b, c \in cs : (L(a, b) /\ L(b, c)) => L(a, c)
\* index sets: nothing below start, everything inside the bounding box, inf-norm set is the box
IndexSetLaws ==
  vec.kind = "glexindex" =>
    LET S == GlexIndexSet(vec.start, vec.stop, vec.qlow, vec.qup)
        d == Len(vec.stop)
    IN /\ \A e \in S : \A j \in 1..d : e[j] <= SeqMax(vec.stop) - 1
       /\ (d = 1 => S = {<<x>> : x \in {y \in 0..(vec.stop[1] - 1) : y >= vec.start[1]}})
       /\ ((d > 1 /\ vec.qup = "inf" /\ vec.qlow = "inf") =>
              S = {e \in [1..d -> 0..(SeqMax(vec.stop) - 1)] :
                     (\A j \in 1..d : e[j] <= vec.stop[j] - 1) /\ ~(\A j \in 1..d : e[j] <= vec.start[j] - 1)})
       /\ GlexIndexSet(vec.start, vec.stop, "0", vec.qup) \subseteq GlexIndexSet([j \in 1..d |-> 0], vec.stop, "0", vec.qup)
=============================================================================
