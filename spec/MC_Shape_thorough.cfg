SPECIFICATION Spec
CONSTANTS
  Tier = "thorough"
INVARIANT BasicIndexTotal
INVARIANT TransposeIsPermutation
CHECK_DEADLOCK FALSE
