------------------------------- MODULE Divide -------------------------------
(***************************************************************************)
(* The loop of numpoly.poly_divmod as a step machine (property C05), for   *)
(* single polynomials in two indeterminates with exact rational            *)
(* coefficients.                                                           *)
(*                                                                         *)
(*   dividend  the running dividend (what the loop still has to reduce)    *)
(*   quotient  the quotient accumulated so far                             *)
(*                                                                         *)
(* One Step = one iteration: pick a divisor term e2 and a dividend term    *)
(* e1 with e2 | e1, subtract (c1/c2) x^(e1-e2) * divisor from the dividend *)
(* and add (c1/c2) x^(e1-e2) to the quotient.  Two candidate rules:        *)
(*   "impl"  every divisor term that does not divide another divisor term  *)
(*           is a candidate, searched in lexsort order - what              *)
(*           get_division_candidate does;                                  *)
(*   "lead"  only the leading term (graded order) of the divisor.          *)
(* TLC shows: the identity  orig = quotient*divisor + dividend  is         *)
(* inductive under both rules; termination (<>done) holds under "lead"     *)
(* and FAILS under "impl" (a two-state lasso, e.g. q1 / (-2 q1 - 2 q0)).   *)
(***************************************************************************)
EXTENDS Integers, Sequences, FiniteSets, TLC, FiniteSetsExt
CONSTANTS MaxE, Rule

\* rationals as normalised <<n, d>>, d > 0
RECURSIVE Gcd(_, _)
Gcd(a, b) == IF b = 0 THEN a ELSE Gcd(b, a % b)
AbsI(x) == IF x < 0 THEN 0 - x ELSE x
QNorm(n, d) == IF n = 0 THEN <<0, 1>> ELSE
   LET g == Gcd(AbsI(n), AbsI(d)) s == IF d < 0 THEN -1 ELSE 1 IN <<s * (n \div g), s * (d \div g)>>
QAdd(x, y) == QNorm(x[1] * y[2] + y[1] * x[2], x[2] * y[2])
QMul(x, y) == QNorm(x[1] * y[1], x[2] * y[2])
QDiv(x, y) == QNorm(x[1] * y[2], x[2] * y[1])
QNeg(x) == <<0 - x[1], x[2]>>
QZero == <<0, 1>>
\* polynomials in two indeterminates: function <<e0, e1>> -> non-zero rational
PAt(f, m) == IF m \in DOMAIN f THEN f[m] ELSE QZero
PClean(f) == [m \in {mm \in DOMAIN f : f[mm] # QZero} |-> f[m]]
PAdd(f, g) == PClean([m \in DOMAIN f \cup DOMAIN g |-> QAdd(PAt(f, m), PAt(g, m))])
PScaleShift(f, c, s) == [m \in {<<mm[1] + s[1], mm[2] + s[2]>> : mm \in DOMAIN f} |->
                            QMul(c, f[<<m[1] - s[1], m[2] - s[2]>>])]
Leq(a, b) == a[1] <= b[1] /\ a[2] <= b[2]
\* numpy.lexsort(exponents.T): the last column is most significant
LexLess(a, b) == a[2] < b[2] \/ (a[2] = b[2] /\ a[1] < b[1])
GLess(a, b) == LET sa == a[1] + a[2] sb == b[1] + b[2] IN sa < sb \/ (sa = sb /\ LexLess(a, b))
MaxBy(S, less(_, _)) == CHOOSE x \in S : \A y \in S : y = x \/ less(y, x)
DivCandImpl(d) == {e2 \in DOMAIN d : \A e \in DOMAIN d : e = e2 \/ ~Leq(e2, e)}
DivCandLead(d) == {MaxBy(DOMAIN d, GLess)}
DivCands(d) == IF Rule = "impl" THEN DivCandImpl(d) ELSE DivCandLead(d)
Pairs(n, d) == {<<e2, e1>> \in DivCands(d) \X DOMAIN n : Leq(e2, e1)}
PairLess(p, q) == LexLess(p[1], q[1]) \/ (p[1] = q[1] /\ LexLess(p[2], q[2]))
Choice(n, d) == MaxBy(Pairs(n, d), PairLess)

Monos == (0..1) \X (0..1)
VARIABLES dividend, quotient, divisor, orig, done
vars == <<dividend, quotient, divisor, orig, done>>
ToPoly(f) == PClean([m \in DOMAIN f |-> <<f[m], 1>>])
Seeds == {ToPoly(f) : f \in [Monos -> {-2, 0, 1}]}
SeedsN == {ToPoly(f) : f \in [(0..2) \X (0..1) -> {0, 1}]}
Init == /\ divisor \in Seeds \ {<<>>}
        /\ dividend \in SeedsN
        /\ orig = dividend /\ quotient = <<>> /\ done = FALSE
Small(f) == \A m \in DOMAIN f : m[1] <= MaxE /\ m[2] <= MaxE
Step == /\ ~done
        /\ IF Pairs(dividend, divisor) = {}
           THEN done' = TRUE /\ UNCHANGED <<dividend, quotient, divisor, orig>>
           ELSE LET p == Choice(dividend, divisor)
                    s == <<p[2][1] - p[1][1], p[2][2] - p[1][2]>>
                    c == QDiv(dividend[p[2]], divisor[p[1]])
                IN /\ quotient' = PAdd(quotient, (s :> c))
                   /\ dividend' = PAdd(dividend, PScaleShift(divisor, QNeg(c), s))
                   /\ UNCHANGED <<divisor, orig, done>>
Spec == Init /\ [][Step]_vars /\ WF_vars(Step)
RECURSIVE MulAccP(_, _, _)
MulAccP(q, d, S) == IF S = {} THEN <<>> ELSE LET m == CHOOSE x \in S : TRUE IN
                     PAdd(PScaleShift(d, q[m], m), MulAccP(q, d, S \ {m}))
PMul(q, d) == MulAccP(q, d, DOMAIN q)
Identity == orig = PAdd(PMul(quotient, divisor), dividend)
\* when the loop has stopped no divisor candidate divides a remaining term
RemainderReduced == done => Pairs(dividend, divisor) = {}
Terminates == <>done
Bound == Small(dividend) /\ Small(quotient)
=============================================================================
