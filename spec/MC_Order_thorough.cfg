SPECIFICATION Spec
CONSTANTS
  MaxTerms = 2
  Tier = "thorough"
INVARIANT Trichotomy
INVARIANT Antisymmetric
INVARIANT EqualOnlyIfIdentical
INVARIANT Transitive
INVARIANT ConstantsAsNumbers
INVARIANT LeadIsMax
INVARIANT Mono3Total
CHECK_DEADLOCK FALSE
