"""Parser for TLA+ values as TLC prints them (state dumps, PrintT output).

Records -> dict, tuples/sequences -> list, sets -> TlaSet (a list subclass,
order as printed), functions (k :> v @@ ...) -> dict with parsed keys
(ints / strings / tuples-as-tuples), strings, integers, booleans.
"""
from __future__ import annotations

import re


class TlaSet(list):
    pass


class ParseError(Exception):
    pass


_TOKEN = re.compile(r"""
    (?P<ws>\s+)
  | (?P<str>"(?:[^"\\]|\\.)*")
  | (?P<int>-?\d+)
  | (?P<id>[A-Za-z_][A-Za-z0-9_]*)
  | (?P<op><<|>>|\|->|:>|@@|\[|\]|\(|\)|\{|\}|,)
""", re.X)


def tokenize(text: str):
    pos, out = 0, []
    while pos < len(text):
        m = _TOKEN.match(text, pos)
        if not m:
            raise ParseError("bad input at %d: %r" % (pos, text[pos:pos + 30]))
        pos = m.end()
        kind = m.lastgroup
        if kind != "ws":
            out.append((kind, m.group(kind)))
    return out


class _P:
    def __init__(self, toks):
        self.t = toks
        self.i = 0

    def peek(self):
        return self.t[self.i] if self.i < len(self.t) else (None, None)

    def take(self, val=None):
        k, v = self.peek()
        if val is not None and v != val:
            raise ParseError("expected %r got %r at token %d" % (val, v, self.i))
        self.i += 1
        return k, v

    def value(self):
        k, v = self.peek()
        if k == "str":
            self.take()
            return bytes(v[1:-1], "utf-8").decode("unicode_escape") if "\\" in v else v[1:-1]
        if k == "int":
            self.take()
            return int(v)
        if k == "id":
            self.take()
            if v == "TRUE":
                return True
            if v == "FALSE":
                return False
            return v  # model value
        if v == "<<":
            self.take()
            items = []
            while self.peek()[1] != ">>":
                items.append(self.value())
                if self.peek()[1] == ",":
                    self.take()
            self.take(">>")
            return items
        if v == "{":
            self.take()
            items = TlaSet()
            while self.peek()[1] != "}":
                items.append(self.value())
                if self.peek()[1] == ",":
                    self.take()
            self.take("}")
            return items
        if v == "[":
            self.take()
            rec = {}
            while self.peek()[1] != "]":
                _, name = self.take()
                self.take("|->")
                rec[name] = self.value()
                if self.peek()[1] == ",":
                    self.take()
            self.take("]")
            return rec
        if v == "(":
            self.take()
            fn = {}
            while True:
                key = self.value()
                self.take(":>")
                fn[_hashable(key)] = self.value()
                if self.peek()[1] == "@@":
                    self.take()
                    continue
                break
            self.take(")")
            return fn
        raise ParseError("unexpected token %r at %d" % (v, self.i))


def _hashable(x):
    if isinstance(x, list):
        return tuple(_hashable(y) for y in x)
    if isinstance(x, dict):
        return tuple(sorted((k, _hashable(v)) for k, v in x.items()))
    return x


def parse(text: str):
    p = _P(tokenize(text))
    v = p.value()
    if p.i != len(p.t):
        raise ParseError("trailing input")
    return v


_STATE = re.compile(r"^State (\d+):\s*$", re.M)


def parse_dump(path: str, variables=None):
    """Yield one dict {var: value} per state of a TLC -dump file."""
    with open(path) as fh:
        text = fh.read()
    parts = _STATE.split(text)
    # parts: [prefix, num, body, num, body, ...]
    for j in range(1, len(parts), 2):
        body = parts[j + 1]
        state = {}
        for chunk in re.split(r"^/\\ ", body, flags=re.M):
            chunk = chunk.strip()
            if not chunk:
                continue
            name, _, val = chunk.partition(" = ")
            if variables is None or name in variables:
                state[name] = parse(val)
        yield state


_DOT_NODE = re.compile(r'^(-?\d+) \[label="(.*)"(?:,style = filled)?\]\s*;?\s*$')
_DOT_EDGE = re.compile(r'^(-?\d+) -> (-?\d+) \[label="([^"]*)"')


def parse_dot(path: str, variables=None):
    """Parse a TLC `-dump dot,actionlabels` graph.
    Returns (nodes: id -> {var: value}, edges: [(src, dst, action label)], init ids)."""
    nodes, edges, inits = {}, [], []
    with open(path) as fh:
        for line in fh:
            line = line.rstrip("\n")
            m = _DOT_EDGE.match(line)
            if m:
                edges.append((m.group(1), m.group(2), m.group(3)))
                continue
            m = _DOT_NODE.match(line)
            if m:
                label = m.group(2).replace("\\n", "\n").replace('\\"', '"').replace("\\\\", "\\")
                state = {}
                for chunk in re.split(r"^/\\ ", label, flags=re.M):
                    chunk = chunk.strip()
                    if not chunk:
                        continue
                    name, _, val = chunk.partition(" = ")
                    if variables is None or name in variables:
                        state[name] = parse(val)
                nodes[m.group(1)] = state
                if "style = filled" in line:
                    inits.append(m.group(1))
    return nodes, edges, inits
