------------------------------- MODULE DType -------------------------------
(***************************************************************************)
(* numpy's numeric dtypes as far as numpoly's coefficients are concerned:  *)
(* kind, width, array-array promotion, and casts of exact values.          *)
(* This is a model of NUMPY; it is bound to numpy itself on every run by   *)
(* the "dtype_pair" / "cast" events (numpy.result_type and ndarray.astype  *)
(* on plain arrays are logged and compared with these definitions).        *)
(***************************************************************************)
EXTENDS Num

DTypes == {"bool", "int8", "int16", "int32", "int64", "uint8", "uint16", "uint32", "uint64",
           "float16", "float32", "float64", "complex64", "complex128"}
Kind(d) == CASE d = "bool" -> "b"
             [] d \in {"int8", "int16", "int32", "int64"} -> "i"
             [] d \in {"uint8", "uint16", "uint32", "uint64"} -> "u"
             [] d \in {"float16", "float32", "float64"} -> "f"
             [] d \in {"complex64", "complex128"} -> "c"
Bits(d) == CASE d = "bool" -> 8
             [] d \in {"int8", "uint8"} -> 8 [] d \in {"int16", "uint16", "float16"} -> 16
             [] d \in {"int32", "uint32", "float32"} -> 32
             [] d \in {"int64", "uint64", "float64", "complex64"} -> 64
             [] d = "complex128" -> 128
IntOf(b) == CASE b = 8 -> "int8" [] b = 16 -> "int16" [] b = 32 -> "int32" [] b = 64 -> "int64"
UIntOf(b) == CASE b = 8 -> "uint8" [] b = 16 -> "uint16" [] b = 32 -> "uint32" [] b = 64 -> "uint64"
FloatOf(b) == CASE b = 16 -> "float16" [] b = 32 -> "float32" [] b = 64 -> "float64"
ComplexOf(b) == IF b <= 64 THEN "complex64" ELSE "complex128"
MaxI(a, b) == IF a > b THEN a ELSE b
\* smallest float width that holds every integer of the given kind and width
FloatFor(k, b) == IF b <= 8 THEN 16 ELSE IF b <= 16 THEN 32 ELSE 64

Rank(k) == CASE k = "b" -> 0 [] k = "u" -> 1 [] k = "i" -> 2 [] k = "f" -> 3 [] k = "c" -> 4
PromoteOrdered(a, b) ==       \* Rank(Kind(a)) <= Rank(Kind(b))
  LET ka == Kind(a) kb == Kind(b) ba == Bits(a) bb == Bits(b)
  IN IF ka = "b" THEN b
     ELSE IF ka = kb THEN (IF ba >= bb THEN a ELSE b)
     ELSE IF ka = "u" /\ kb = "i" THEN (IF ba < bb THEN b ELSE IF ba >= 64 THEN "float64" ELSE IntOf(2 * ba))
     ELSE IF kb = "f" THEN FloatOf(MaxI(bb, FloatFor(ka, ba)))          \* integer with float
     ELSE IF ka = "f" THEN ComplexOf(MaxI(bb, 2 * ba))                  \* float with complex
     ELSE ComplexOf(MaxI(bb, 2 * FloatFor(ka, ba)))                    \* integer with complex
Promote(a, b) == IF Rank(Kind(a)) <= Rank(Kind(b)) THEN PromoteOrdered(a, b) ELSE PromoteOrdered(b, a)

\* -------------------------------------------------------------------- casts
Pow2(k) == BMk(1, MagShl(<<1>>, k))
RECURSIVE MagShr(_, _)
MagShr(m, k) == IF k = 0 \/ m = <<>> THEN m ELSE MagShr(MagHalf(m), k - 1)
\* truncation toward zero of re(x)
TruncRe(x) == IF x.k = 0 THEN x.r ELSE BMk(x.r.s, MagShr(x.r.m, x.k))
\* v mod 2^bits as a non-negative BigInt
ModPow2(v, bits) ==
  LET q == MagShr(v.m, bits)
      t == IF q = <<>> THEN v.m ELSE MagSub(v.m, MagShl(q, bits))        \* |v| mod 2^bits
  IN IF v.s >= 0 THEN BMk(1, t)
     ELSE IF t = <<>> THEN BZ ELSE BSub(Pow2(bits), BMk(1, t))
WrapUnsigned(v, bits) == ModPow2(v, bits)
WrapSigned(v, bits) ==
  LET r == ModPow2(v, bits)
  IN IF BCmp(r, Pow2(bits - 1)) >= 0 THEN BSub(r, Pow2(bits)) ELSE r
Cast(x, d) ==
  LET k == Kind(d)
  IN CASE k = "b" -> IF NIsZero(x) THEN NZero ELSE NOne
       [] k = "i" -> [r |-> WrapSigned(TruncRe(x), Bits(d)), i |-> BZ, k |-> 0]
       [] k = "u" -> [r |-> WrapUnsigned(TruncRe(x), Bits(d)), i |-> BZ, k |-> 0]
       [] k = "f" -> IF x.i.s = 0 THEN x ELSE NNorm(x.r, BZ, x.k)        \* values are chosen representable
       [] k = "c" -> x
=============================================================================
