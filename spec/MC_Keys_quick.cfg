SPECIFICATION Spec
CONSTANTS
  Tier = "quick"
INVARIANT CodecInverse
INVARIANT GuaranteedRangeStorable
INVARIANT Injective
INVARIANT ProductKey
CHECK_DEADLOCK FALSE
