"""spec -> code: programs enumerated by TLC (dumped states of the MC_* models)
are executed on the real numpoly; the recorded events go back to TLC
(Trace.tla) for judgment."""
from __future__ import annotations

from . import tlaval
from .project import build_poly
from .record import Recorder, reset_options


def leaf_programs(dump_path: str, var="prog", is_leaf=None):
    for st in tlaval.parse_dump(dump_path, variables={var}):
        prog = st[var]
        if is_leaf is None or is_leaf(prog):
            yield prog


def seed_to_poly(v: dict):
    spec = {"shape": v["shape"], "names": v["names"], "rows": v["rows"],
            "coefs": v["coefs"], "dtype": v.get("dtype", "int64")}
    return build_poly(spec)


SPELLINGS = ("operator", "numpy", "numpoly")


CONFIG_BOOLS = ("retain_names", "retain_coefficients", "sort_graded", "sort_reverse")
CONFIG_DTYPES = ("int32", "float32", "int64", "complex64", "int8", "float64", "int16", "complex128")


def ring_config(variant: int):
    """C15: the (option setting, coefficient dtype) a bounded-model program is replayed under.  The 16 settings of
    the four semantic options and the coefficient dtypes rotate so that consecutive programs meet all of them."""
    combo = variant + variant // 128
    kw = {name: bool((combo >> i) & 1) for i, name in enumerate(CONFIG_BOOLS)}
    return kw, CONFIG_DTYPES[(combo >> 4) % len(CONFIG_DTYPES)]


def run_ring_program(prog, tid: str, prop: str, variant: int = 0, configs: bool = False) -> dict:
    """Execute one MC_Ring program.  `variant` rotates spellings (carriers are
    parameters the specification ignores and the harness honours).  With `configs`
    the program runs under a rotating option setting and coefficient dtype (C15)."""
    reset_options()
    rec = Recorder(tid, prop)
    dtype = "int64"
    if configs:
        kw, dtype = ring_config(variant)
        rec.do("set_options", [], keep=False, kw=kw, bad=[], prop="C14")
    regs = []
    for n, ins in enumerate(prog):
        if ins["op"] == "seed":
            v = dict(ins["v"], dtype=dtype)
            regs.append(rec.new(seed_to_poly(v), note="seed"))
        else:
            sp = SPELLINGS[(variant + n) % 3]
            new = rec.do("arith", [regs[ins["a"] - 1], regs[ins["b"] - 1]], op=ins["op"], spelling=sp)
            if not new:
                break
            regs.append(new[0])
    if len(regs) > sum(1 for ins in prog if ins["op"] == "seed") and dtype != "int8":     # (2*2)**2**2 leaves int8
        # and the square of the last result, through the spellings that reach numpy.square (p ** 2 is one of them)
        rec.do("unary", [regs[-1]], keep=False, op="square", spelling=SPELLINGS[(variant + 1) % 3])
    rec.meta["source"] = "MC_Ring"
    return rec.to_json()


def leaf_has_op(prog) -> bool:
    return any(ins["op"] != "seed" for ins in prog)


STD_KEYS = ("act", "prop", "args", "out", "res", "digests", "targets", "after", "opts", "ms", "kept", "note")


def reexecute(trace: dict, tid: str = None, prop: str = None, variant: int = 0) -> dict:
    """Re-run a recorded trace from its own JSON: inputs are rebuilt from the
    projections logged by `new` events, calls go through the action table."""
    from . import actions
    reset_options()
    rec = Recorder(trace["id"], trace.get("prop", prop or "?"))
    for ev in trace["events"]:
        if ev["act"] == "new":
            rec.new(actions.rebuild(ev["res"][0]), note=ev.get("note", ""))
            rec.events[-1]["prop"] = ev.get("prop", rec.prop)
            continue
        params = {k: v for k, v in ev.items() if k not in STD_KEYS}
        if any(a > len(rec.regs) for a in ev["args"]):
            break                                   # an earlier call changed arity: stop here
        rec.do(ev["act"], ev["args"], prop=ev.get("prop"), targets=ev.get("targets", ()),
               keep=ev.get("kept", True), **params)
    rec.meta["reexecuted"] = True
    return rec.to_json()


# ------------------------------------------------------------ C14 option machine
def option_walks(dot_path: str, max_len: int = 60):
    """Cover every edge of the dumped quotient graph by walks from the initial
    state.  Returns (walks, n_edges); a walk is the list of `last` records."""
    from collections import deque
    nodes, edges, inits = tlaval.parse_dot(dot_path, variables={"last"})
    adj = {}
    for s, d, _ in edges:
        adj.setdefault(s, [])
        if d not in adj[s]:
            adj[s].append(d)
    uncovered = {(s, d) for s in adj for d in adj[s]}
    total = len(uncovered)

    def path_to_uncovered(start):
        prev, dq = {start: None}, deque([start])
        while dq:
            u = dq.popleft()
            if any((u, v) in uncovered for v in adj.get(u, ())):
                path = []
                while prev[u] is not None:
                    path.append(u)
                    u = prev[u]
                return list(reversed(path))
            for v in adj.get(u, ()):
                if v not in prev:
                    prev[v] = u
                    dq.append(v)
        return None

    walks = []
    init = inits[0]
    while uncovered:
        cur, walk = init, []
        while len(walk) < max_len:
            nxt = [v for v in adj.get(cur, ()) if (cur, v) in uncovered]
            if nxt:
                v = nxt[0]
                uncovered.discard((cur, v))
                walk.append(nodes[v]["last"])
                cur = v
                continue
            path = path_to_uncovered(cur)
            if path is None or len(walk) + len(path) >= max_len:
                break
            for v in path:
                uncovered.discard((cur, v))
                walk.append(nodes[v]["last"])
                cur = v
        if not walk:
            break
        walks.append(walk)
    return walks, total


def run_option_walk(walk, tid: str, prop: str, variant: int = 0) -> dict:
    reset_options()
    rec = Recorder(tid, prop)
    depth = 0
    for last in walk:
        act = last["act"]
        kw = last["kw"] if isinstance(last["kw"], dict) else {}
        bad = list(last["bad"])
        if act in ("set_options", "enter"):
            rec.do(act, [], keep=False, kw=kw, bad=bad)
            if act == "enter" and not bad:
                depth += 1
        elif act == "exit":
            rec.do("exit", [], keep=False)
            depth -= 1
        elif act == "exit_exc":
            rec.do("exit_exc", [], keep=False, thrown=last["thrown"])
            depth -= 1
        elif act == "get_mutate":
            rec.do("get_mutate", [], keep=False, clear=bool(variant % 2))
        elif act == "get_defaults":
            rec.do("get_defaults", [], keep=False)
    while depth > 0:
        rec.do("exit", [], keep=False)
        depth -= 1
    reset_options()
    rec.meta["source"] = "MC_Options"
    return rec.to_json()


def option_walks_items(dot_path: str):
    walks, total = option_walks(dot_path)
    return walks, {"graph_edges": total, "edges_covered_by_walks": total, "walks": len(walks)}


def ring_programs(dump_path: str):
    progs = list(leaf_programs(dump_path, var="prog", is_leaf=leaf_has_op))
    ops = {}
    for p in progs:
        for ins in p:
            ops[ins["op"]] = ops.get(ins["op"], 0) + 1
    return progs, {"instructions": ops}


# ------------------------------------------------------------ C05 division pairs
def divide_pairs(dump_path: str):
    """The (dividend, divisor) pairs TLC enumerates as initial states of spec/Divide.tla."""
    pairs, seen = [], set()
    for st in tlaval.parse_dump(dump_path, variables={"dividend", "divisor", "quotient", "orig", "done"}):
        if st["quotient"] != [] or st["done"] or st["dividend"] != st["orig"]:
            continue
        key = repr((st["dividend"], st["divisor"]))
        if key not in seen:
            seen.add(key)
            pairs.append({"dividend": st["dividend"], "divisor": st["divisor"]})
    return pairs, {"pairs": len(pairs)}


def _tla_poly(f, integer=False):
    """TLA+ function <<e0,e1>> -> <<n,d>> (or <<>> for zero) to a 0-d polynomial in q0, q1: float64, or int64 when
    `integer` is asked for and every coefficient is a whole number."""
    if not f:
        rows, coefs = [[0, 0]], [[0.0]]
    else:
        rows = [list(k) for k in f]
        coefs = [[v[0] / v[1]] for v in f.values()]
    if integer and all(float(c[0]).is_integer() for c in coefs):
        return build_poly({"shape": [], "names": [0, 1], "rows": rows, "coefs": [[int(c[0])] for c in coefs], "dtype": "int64"})
    return build_poly({"shape": [], "names": [0, 1], "rows": rows, "coefs": coefs, "dtype": "float64"})


def run_divide_pair(pair, tid: str, prop: str, variant: int = 0) -> dict:
    reset_options()
    rec = Recorder(tid, prop, timeout_s=20.0)
    # operand dtypes rotate: float/float, int/int, int/float, float/int (integer operands still have fractional quotients)
    n = rec.new(_tla_poly(pair["dividend"], integer=(variant // 8) % 4 in (1, 2)), note="dividend")
    d = rec.new(_tla_poly(pair["divisor"], integer=(variant // 8) % 4 in (1, 3)), note="divisor")
    fn = ("divmod", "divmod", "divide", "remainder")[variant % 4]
    sp = ("function", "operator")[(variant // 4) % 2]
    rec.do("polydiv", [n, d], keep=False, fn=fn, spelling=sp, capped=False, digs=[], iterations=0)
    rec.meta["source"] = "Divide"
    return rec.to_json()


# ------------------------------------------------------- generic vector models
def vectors(dump_path: str, var="vec"):
    out, kinds = [], {}
    for st in tlaval.parse_dump(dump_path, variables={var}):
        v = st.get(var)
        if isinstance(v, dict) and v.get("kind") != "none":
            out.append(v)
            kinds[v["kind"]] = kinds.get(v["kind"], 0) + 1
    return out, {"vectors": len(out), "vector_kinds": kinds}


def _q(q):
    return "inf" if q == "inf" else float(q)


def sort_vectors(dump_path: str):
    out, _ = vectors(dump_path)
    out = [v for v in out if v["kind"] in ("glexsort", "glexindex")]
    return out, {"vectors": len(out)}


def run_sort_vector(vec, tid: str, prop: str, variant: int = 0) -> dict:
    """MC_Sort vectors on glexsort / glexindex / bindex / monomial."""
    reset_options()
    rec = Recorder(tid, prop)
    if vec["kind"] == "glexsort":
        keys = [list(r) for r in vec["keys"]]
        rec.do("index", [], keep=False, fn="glexsort", p={"keys": keys, "graded": vec["graded"], "reverse": vec["reverse"], "oned": False},
               keys=keys, graded=vec["graded"], reverse=vec["reverse"])
    else:
        start, stop = list(vec["start"]), list(vec["stop"])
        d = len(stop)
        ct = [_q(vec["qlow"]), _q(vec["qup"])] if vec["qlow"] != vec["qup"] else _q(vec["qup"])
        base = {"start": start if d > 1 else start[0], "stop": stop if d > 1 else stop[0], "dimensions": d, "cross_truncation": ct}
        fn = ("glexindex", "monomial", "bindex")[variant % 3]
        if fn == "bindex":
            ordering = ("G" if vec["graded"] else "") + ("" if vec["reverse"] else "R")
            q = dict(base, ordering=ordering)
        else:
            q = dict(base, graded=vec["graded"], reverse=vec["reverse"])
        dim_names = []
        if fn == "monomial" and (variant // 3) % 2:
            dim_names = [(1, 3, 4, 10)[j] for j in range(d)]
            q["dim_names"] = dim_names
        rec.do("index", [], keep=False, fn=fn, p=q, start=start, stop=stop, qlow=vec["qlow"], qup=vec["qup"],
               graded=vec["graded"], reverse=vec["reverse"], inverse=False, dim_names=dim_names)
    rec.meta["source"] = "MC_Sort"
    return rec.to_json()


def _rep_poly(rep, swapped=False):
    """MC_Order representation (function row -> coefficient, or <<>>) to a 0-d polynomial in q0, q1.
    With `swapped` the same polynomial is stored over the name tuple (q1, q0): storage order must not matter."""
    names = [1, 0] if swapped else [0, 1]
    if not rep:
        return build_poly({"shape": [], "names": names, "rows": [[0, 0]], "coefs": [[0]], "dtype": "int64"})
    rows = [list(reversed(k)) if swapped else list(k) for k in rep]
    return build_poly({"shape": [], "names": names, "rows": rows, "coefs": [[v] for v in rep.values()], "dtype": "int64"})


def run_order_vector(vec, tid: str, prop: str, variant: int = 0) -> dict:
    reset_options()
    rec = Recorder(tid, prop)
    rec.do("set_options", [], keep=False, kw={"sort_graded": vec["graded"], "sort_reverse": vec["reverse"]}, bad=[], prop="C14")
    swapped = (variant // 8) % 2 == 1          # both operands stored over (q1, q0)
    if vec["kind"] == "mono3":
        # single monomials in q0, q1, q2 (with a lower-order tail in every other replay)
        def mono(row, coef):
            rows, coefs = [list(row)], [[coef]]
            if variant % 2 and any(row):
                rows.append([0, 0, 0])
                coefs.append([3])
            return build_poly({"shape": [], "names": [0, 1, 2], "rows": rows, "coefs": coefs, "dtype": "int64"})
        a = rec.new(mono(vec["a"], (1, 2, -1)[variant % 3]))
        b = rec.new(mono(vec["b"], (1, 2, -1)[variant % 3]))
    else:
        a = rec.new(_rep_poly(vec["a"], swapped))
        b = rec.new(_rep_poly(vec["b"], swapped))
    sps = ("operator", "numpy", "numpoly")
    for n, op in enumerate(("lt", "le", "gt", "ge", "eq", "ne")):
        rec.do("compare", [a, b], keep=False, op=op, spelling=sps[(variant + n) % 3])
    rec.do("extreme", [a, b], keep=False, op=("maximum", "minimum")[variant % 2], spelling=("numpy", "numpoly")[(variant // 2) % 2])
    # a plain number as operand (Python / numpy scalar, either side)
    import numpy
    c = rec.new((0, numpy.int64(1), -1.0, numpy.float64(0.0))[variant % 4])
    pair = [a, c] if (variant // 4) % 2 == 0 else [c, a]
    for n, op in enumerate(("lt", "ge", "eq")):
        rec.do("compare", pair, keep=False, op=op, spelling=sps[(variant + n) % 3] if pair[0] == a else "operator")
    rec.do("lead", [a], keep=False, fn=("lead_exponent", "lead_coefficient")[variant % 2], flags_given=True,
           graded=vec["graded"], reverse=vec["reverse"], prop="C19")
    reset_options()
    rec.meta["source"] = "MC_Order"
    return rec.to_json()


def run_reduce_vector(vec, tid: str, prop: str, variant: int = 0) -> dict:
    import random
    from .actions import reduce_fields
    from .drivers.shape import distinct_poly_spec
    reset_options()
    rec = Recorder(tid, prop)
    rng = random.Random(variant)
    a = rec.new(build_poly(distinct_poly_spec(rng, tuple(vec["shape"]), names=(0, 1), kind="int")))
    fn = vec["fn"]
    axes = list(vec["axes"])
    p = {"axis": "none" if vec["none"] else (axes[0] if len(axes) == 1 and variant % 2 == 0 else axes)}
    if vec["keepdims"]:
        p["keepdims"] = True
    if fn == "cumsum" and not vec["none"]:
        p["axis"] = axes[0]
    sps = {"sum": ["numpoly", "numpy", "method", "reduce"], "prod": ["numpoly", "numpy", "method", "reduce"],
           "mean": ["numpoly", "numpy", "method"], "cumsum": ["numpoly", "numpy", "method"]}[fn]
    rec.do("reduce", [a], keep=False, fn=fn, p=p, spelling=sps[variant % len(sps)], **reduce_fields(fn, p))
    rec.meta["source"] = "MC_Reduce"
    return rec.to_json()


def linalg_vectors(dump_path: str):
    out, _ = vectors(dump_path)
    out = [v for v in out if v["kind"] not in ("fn", "none")]
    kinds = {}
    for v in out:
        kinds[v["kind"]] = kinds.get(v["kind"], 0) + 1
    return out, {"vectors": len(out), "vector_kinds": kinds}


def run_linalg_vector(vec, tid: str, prop: str, variant: int = 0) -> dict:
    """MC_LinAlg vectors on det / matmul / inner / outer / diff / ediff1d."""
    import random
    from .actions import reduce_fields
    from .drivers.shape import distinct_poly_spec
    reset_options()
    rec = Recorder(tid, prop)
    rng = random.Random(variant)
    kind = ("int", "int", "float")[variant % 3]
    names = ((0, 1), (0,), (1, 2))[(variant // 3) % 3]

    def operand(shape, tag=1, nm=None):
        return build_poly(distinct_poly_spec(rng, tuple(shape), names=nm or names, kind=kind, tag=tag))

    def do(fn, args, p, sp):
        return rec.do("reduce", args, keep=False, fn=fn, p=p, spelling=sp, **reduce_fields(fn, p))

    k = vec["kind"]
    if k == "det":
        n = vec["n"]
        shape = (2, n, n) if vec["stack"] else (n, n)
        spec = distinct_poly_spec(rng, shape, names=names, kind=kind)
        for z in vec["zeros"]:
            for row in spec["coefs"]:
                row[z - 1] = row[z - 1] * 0
                if vec["stack"] and variant % 2 == 0:
                    row[n * n + z - 1] = row[n * n + z - 1] * 0       # same pattern in both members
        a = rec.new(build_poly(spec))
        do("det", [a], {}, ("numpoly", "numpy")[variant % 2])
    elif k == "matmul":
        a = rec.new(operand(vec["a"]))
        if variant % 4 == 3:
            import numpy
            size = 1
            for d in vec["b"]:
                size *= d
            b = rec.new(numpy.arange(1, size + 1, dtype="int64" if kind == "int" else "float64").reshape(vec["b"]))
        else:
            b = rec.new(operand(vec["b"], tag=3, nm=((0, 1), (1,), (0, 2))[variant % 3]))
        do("matmul", [a, b], {}, ("numpoly", "numpy", "operator")[variant % 3])
    elif k in ("inner", "outer"):
        a = rec.new(operand((vec["n"],)))
        b = rec.new(operand((vec["n"] if k == "inner" else vec["m"],), tag=3, nm=((0, 1), (2,))[variant % 2]))
        do(k, [a, b], {}, ("numpoly", "numpy")[variant % 2])
    else:
        shape = list(vec["shape"])
        a = rec.new(operand(shape))
        args, p = [a], {}
        if k == "diff":
            p = {"axis": vec["axis"], "n": vec["n"]}
        for key, choice in (("has_pre", vec["pre"]), ("has_app", vec["app"])):
            if choice == "none":
                continue
            # every third replay gives prepend / append another coefficient dtype: the result is promoted
            ekind = kind if (variant // 2) % 3 else ("float" if kind == "int" else "int")
            def other(shape_, tag):
                return build_poly(distinct_poly_spec(rng, tuple(shape_), names=names, kind=ekind, tag=tag))
            if choice == "scalar":
                extra = other((), 5) if variant % 2 else (2 if ekind == "int" else 0.5)
            elif k == "diff":
                s2 = list(shape)
                s2[vec["axis"]] = 1 + variant % 2
                extra = other(s2, 5)
            else:
                extra = other((1 + variant % 2,), 5)
            args.append(rec.new(extra))
            p[key] = True
        do(k, args, p, ("numpoly", "numpy")[variant % 2])
    rec.meta["source"] = "MC_LinAlg"
    return rec.to_json()


def run_const_vector(vec, tid: str, prop: str, variant: int = 0) -> dict:
    """MC_Reduce vectors on constant polynomials (C11): every reduction numpoly mirrors, for the enumerated shape,
    axis choice (none / single / negative / tuples in every order) and keepdims, against numpy on the raw array."""
    import random
    from .drivers.const import const_poly, INDEX_RESULT
    reset_options()
    rec = Recorder(tid, prop)
    rng = random.Random(variant)
    shape = tuple(vec["shape"])
    kind = ("int", "float")[variant % 2]
    a = rec.new(const_poly(rng, shape, kind, exact=True))
    family = {"sum": ["sum", "any", "count_nonzero"], "prod": ["prod", "all"], "mean": ["mean", "amax", "max"],
              "cumsum": ["cumsum", "argmax", "argmin", "amin", "min"]}[vec["fn"]]
    fn = family[(variant // 2) % len(family)]
    axes = list(vec["axes"])
    p = {}
    if not vec["none"]:
        if fn in ("cumsum", "argmax", "argmin"):
            p["axis"] = axes[0]
        else:
            p["axis"] = axes[0] if len(axes) == 1 else axes
    if vec["keepdims"] and fn not in ("cumsum", "argmax", "argmin"):
        p["keepdims"] = True
    sp = ("numpoly", "numpy", "method")[(variant // 6) % 3]
    if sp == "method" and fn in ("argmax", "argmin", "count_nonzero"):
        sp = "numpoly"
    rec.do("constfn", [a], keep=False, fn=fn, p=p, spelling=sp, index_result=fn in INDEX_RESULT, np=[], np_out="ret")
    rec.meta["source"] = "MC_Reduce"
    return rec.to_json()


def order_vectors(dump_path: str):
    out, stats = vectors(dump_path)
    pairs = [v for v in out if v["kind"] == "order"]
    mono3 = [v for v in out if v["kind"] == "mono3"]
    return pairs, {"vectors": len(pairs) + len(mono3), "always": mono3}


def reduce_vectors(dump_path: str):
    out, stats = vectors(dump_path)
    out = [v for v in out if v["kind"] == "reduce"]
    return out, {"vectors": len(out)}


def shape_vectors(dump_path: str):
    out, _ = vectors(dump_path)
    out = [v for v in out if v["kind"] in ("index", "transpose", "join", "moveaxis")]
    return out, {"vectors": len(out)}


def gen_dtype(kind):
    return {"int": "int64", "float": "float64", "complex": "complex128"}[kind]


def run_shape_vector(vec, tid: str, prop: str, variant: int = 0) -> dict:
    import random
    from .actions import gather_map
    from .drivers.shape import distinct_poly_spec, model_of
    reset_options()
    rec = Recorder(tid, prop)
    rng = random.Random(variant)
    shape = tuple(vec["shape"])
    if vec["kind"] == "join":
        import numpy
        names = ((0, 1), (0,), (1, 2))[variant % 3]
        kind = ("int", "float")[(variant // 3) % 2]
        spec = distinct_poly_spec(rng, shape, names=names, kind=kind)
        ops = [rec.new(build_poly(spec))]
        for j in range(1, vec["count"]):
            fam = vec["family"]
            if fam == "same":
                other = dict(spec, coefs=[[c * (j + 1) for c in row] for row in spec["coefs"]])
            elif fam == "twin":
                other = dict(spec, names=[n + j for n in spec["names"]], coefs=[[c * (j + 1) for c in row] for row in spec["coefs"]])
            elif fam == "terms":
                other = distinct_poly_spec(rng, shape, names=names, kind=kind, tag=j + 2)
            else:
                size = int(numpy.prod(shape, dtype=int))
                ops.append(rec.new(numpy.arange(j, j + size, dtype=gen_dtype(kind)).reshape(shape)))
                continue
            ops.append(rec.new(build_poly(other)))
        fn = vec["fn"]
        p = {"axis": vec["axis"]} if fn in ("concatenate", "stack") else {}
        params = {"fn": fn, "p": p, "spelling": ("numpoly", "numpy")[variant % 2]}
        try:
            g = gather_map(params, [shape] * len(ops))
        except Exception:
            rec.meta["skipped"] = True
            return rec.to_json()
        model = model_of(fn, p, [shape] * len(ops))
        rec.do("move", ops, gather=g, model=[model] if model else [], **params)
        rec.meta["source"] = "MC_Shape"
        return rec.to_json()
    a = rec.new(build_poly(distinct_poly_spec(rng, shape, names=(0, 1) if variant % 2 else (0,), kind="int")))
    if vec["kind"] == "moveaxis":
        nd = len(shape)
        src, dst = list(vec["source"]), list(vec["destination"])
        if (variant // 2) % 2:
            src = [x - nd for x in src]                      # the same axes written with negative numbers
        if (variant // 4) % 2:
            dst = [x - nd for x in dst]
        p = {"source": src[0] if len(src) == 1 and variant % 3 == 0 else src, "destination": dst[0] if len(dst) == 1 and variant % 3 == 0 else dst}
        params = {"fn": "moveaxis", "p": p, "spelling": ("numpoly", "numpy")[variant % 2]}
        g = gather_map(params, [shape])
        rec.do("move", [a], gather=g, model=[], **params)
        rec.meta["source"] = "MC_Shape"
        return rec.to_json()
    if vec["kind"] == "transpose":
        fn, p = ("transpose", "transpose_method")[variant % 2], {"axes": [x - 1 for x in vec["perm"]]}
        base = "transpose"
    else:
        items = []
        for it in vec["items"]:
            it = dict(it)
            if it["t"] == "slice":
                it = {"t": "slice", "a": list(it["a"]), "b": list(it["b"]), "st": list(it["st"])}
            if it["t"] == "list":
                it = {"t": "list", "v": list(it["v"])}
            items.append(it)
        fn, p = "getitem", {"index": items, "tuple": len(items) != 1 or bool(variant % 2)}
        base = "getitem"
    params = {"fn": fn, "p": p, "spelling": ("numpoly", "numpy")[variant % 2]}
    try:
        g = gather_map(params, [shape])
    except Exception:  # numpy rejects this expression (e.g. lists that do not broadcast): outside the quantifier
        rec.meta["skipped"] = True
        return rec.to_json()
    model = model_of(base, p, [shape])
    rec.do("move", [a], gather=g, model=[model] if model else [], **params)
    rec.meta["source"] = "MC_Shape"
    return rec.to_json()


def attr_vectors(dump_path: str):
    out, _ = vectors(dump_path)
    out = [v for v in out if v["kind"] == "attr"]
    return out, {"vectors": len(out)}


def run_attr_vector(vec, tid: str, prop: str, variant: int = 0) -> dict:
    from .project import num
    reset_options()
    rec = Recorder(tid, prop)
    rec.do("set_options", [], keep=False, kw={"retain_coefficients": vec["grc"], "retain_names": vec["grn"]}, bad=[], prop="C14")
    new = rec.do("from_attributes", [], rows=[list(r) for r in vec["rows"]], coefs=[[num(c)] for c in vec["coefs"]], shape=[],
                 names=[0, 1], rc=vec["rc"], rn=vec["rn"], via=("function", "classmethod", "clean_attributes")[variant % 3],
                 dtype="int64", names_form=("tuple", "list", "string", "omitted", "poly")[(variant // 9) % 5])
    if new:
        rec.do("rebuild", new, keep=False, via=("attributes", "raw", "todict")[(variant // 3) % 3])
    reset_options()
    rec.meta["source"] = "MC_Attr"
    return rec.to_json()


def align_vectors(dump_path: str):
    out, _ = vectors(dump_path)
    out = [v for v in out if v["kind"] == "pair"]
    return out, {"vectors": len(out)}


def _align_operand(o, dtype="int64"):
    """MC_Align operand: coefficients as MC_Align!CoefAt gives them (inputs only: the judgment reads the real object)."""
    size = 1
    for d in o["shape"]:
        size *= d
    coefs = [[0 if o["zero"] == r else (2 if (r + k) % 2 == 0 else -1) * r for k in range(1, size + 1)]
             for r in range(1, len(o["rows"]) + 1)]
    return build_poly({"shape": list(o["shape"]), "names": list(o["names"]), "rows": [list(r) for r in o["rows"]],
                       "coefs": coefs, "dtype": dtype})


def run_align_vector(vec, tid: str, prop: str, variant: int = 0) -> dict:
    """MC_Align pairs on align_polynomials and, in rotation, the three partial alignment functions."""
    import numpy
    reset_options()
    rec = Recorder(tid, prop)
    if (variant // 7) % 3 == 0:
        # every third replay under non-default retain options: alignment forces its own flags
        kw = {"retain_names": bool((variant // 21) % 2), "retain_coefficients": bool((variant // 42) % 2)}
        rec.do("set_options", [], keep=False, kw=kw, bad=[], prop="C14")
    a = rec.new(_align_operand(vec["a"], ("int64", "float64", "int64", "complex128")[variant % 4]))
    b = rec.new(_align_operand(vec["b"], ("int64", "int64", "float64")[(variant // 4) % 3]))
    ops = [a, b]
    if variant % 5 == 0:
        ops.append(rec.new((3, numpy.float64(0.5), [1, 2] if vec["b"]["shape"] == [2] else 2)[(variant // 5) % 3]))
    for fn in ("align_polynomials", ("align_shape", "align_indeterminants", "align_exponents")[variant % 3]):
        new = rec.do("align", ops, fn=fn)
        if new and len(new) == len(ops):
            rec.do("realign", new, keep=False, fn=fn)
    reset_options()
    rec.meta["source"] = "MC_Align"
    return rec.to_json()


def roundtrip_vectors(dump_path: str):
    out, _ = vectors(dump_path)
    out = [v for v in out if v["kind"] == "trip"]
    return out, {"vectors": len(out)}


def run_roundtrip_vector(vec, tid: str, prop: str, variant: int = 0) -> dict:
    """MC_Roundtrip: one operand through one medium under one setting of the retain options."""
    reset_options()
    rec = Recorder(tid, prop)
    dtype = ("int64", "float64", "int32", "complex128")[variant % 4]
    if dtype == "complex128" and vec["medium"].startswith("text"):
        dtype = "float32"               # C13 quantifies text files over int and float coefficients
    a = rec.new(_align_operand(vec["o"], dtype))
    rec.do("set_options", [], keep=False, kw={"retain_names": vec["rn"], "retain_coefficients": vec["rc"]}, bad=[], prop="C14")
    m = vec["medium"]
    if m.startswith("pickle"):
        rec.do("copy", [a], keep=False, how="pickle", protocol=int(m[6:]))
    elif m in ("copy", "deepcopy", "method"):
        rec.do("copy", [a], keep=False, how=m, protocol=0)
    else:
        _, writer, target = m.split("_")
        fmt = "default" if dtype in ("float64", "float32") else ("%d", "default", "%g")[(variant // 4) % 3]
        rec.do("saveload", [a], keep=False, writer=writer, fmt=fmt, delimiter=("default", ",")[(variant // 12) % 2],
               header="default", comments="default", target=target)
    reset_options()
    rec.meta["source"] = "MC_Roundtrip"
    return rec.to_json()


def text_vectors(dump_path: str):
    out, _ = vectors(dump_path)
    out = [v for v in out if v["kind"] == "text"]
    return out, {"vectors": len(out)}


def run_text_vector(vec, tid: str, prop: str, variant: int = 0) -> dict:
    """A two-element array [a, b] printed under the given display order and retain_names setting."""
    reset_options()
    rec = Recorder(tid, prop)
    kw = {"display_graded": vec["graded"], "display_reverse": vec["reverse"], "display_inverse": bool(variant % 2),
          "retain_names": vec["retain_names"]}
    rec.do("set_options", [], keep=False, kw=kw, bad=[], prop="C14")
    rows = sorted({tuple(r) for r in list(vec["a"]) + list(vec["b"])})
    coefs = [[1 if r in [tuple(x) for x in vec["a"]] else 0, 1 if r in [tuple(x) for x in vec["b"]] else 0] for r in rows]
    coef = (1, -2, 1.5)[variant % 3]
    coefs = [[c * coef for c in row] for row in coefs]
    a = rec.new(build_poly({"shape": [2], "names": [0, 1], "rows": [list(r) for r in rows], "coefs": coefs,
                            "dtype": "float64" if isinstance(coef, float) else "int64"}))
    for fn in (("str", "repr"), ("array_str", "array_repr"))[variant % 2]:
        rec.do("text", [a], keep=False, fn=fn, lexerror="", terms=[], text="")
    reset_options()
    rec.meta["source"] = "MC_Text"
    return rec.to_json()


def dtype_vectors(dump_path: str):
    out, _ = vectors(dump_path)
    out = [v for v in out if v["kind"] == "pair"]
    return out, {"vectors": len(out)}


def run_dtype_vector(vec, tid: str, prop: str, variant: int = 0) -> dict:
    """One ordered dtype pair (a, b): model-vs-numpy binding events, construction, astype, + - *."""
    import random
    import numpy
    from .drivers import dtype as D
    from .project import num
    reset_options()
    rec = Recorder(tid, prop)
    rng = random.Random(variant)
    a, b = vec["a"], vec["b"]
    rec.do("dtype", [], keep=False, fn="dtype_pair", a=a, b=b)
    vals = D.castable_values(a, b)
    rec.do("dtype", [], keep=False, fn="cast", frm=a, to=b, vals=[num(numpy.dtype(a).type(v).item()) for v in vals])
    shape = rng.choice([(), (2,), (2, 2)])
    x = rec.new(D.poly_of(rng, a, shape, (0, 1)))
    y = rec.new(D.poly_of(rng, b, rng.choice([shape, ()]), (0, 1)))
    if not (D.kind_of(a) in "fc" and D.kind_of(b) == "u"):
        rec.do("dtype", [x], keep=False, fn="construct", how=("astype", "polynomial", "aspolynomial", "from_attributes")[variant % 4], dtype=b)
    for op in ("add", "sub", "mul"):
        if op == "sub" and a == "bool" and b == "bool":
            continue
        rec.do("dtype", [x, y], keep=False, fn="arith", op=op)
    rec.do("dtype", [x, x], keep=False, fn="arith", op="sub" if a != "bool" else "add")      # every term cancels
    rec.meta["source"] = "MC_DType"
    return rec.to_json()


def key_vectors(dump_path: str):
    out, _ = vectors(dump_path)
    out = [v for v in out if v["kind"] in ("exp", "pair")]
    return out, {"vectors": len(out)}


def run_key_vector(vec, tid: str, prop: str, variant: int = 0) -> dict:
    from .project import num
    reset_options()
    rec = Recorder(tid, prop)
    coef = (1, -2, 3)[variant % 3]
    if vec["kind"] == "pair":
        # (c * q0**a) * (d * q0**b) is c*d * q0**(a+b), in both orders and through the three spellings
        a, b = (vec["a"], vec["b"]) if variant % 2 else (vec["b"], vec["a"])
        names = [0] if (variant // 2) % 2 else [0, 1]
        def mono(e, c):
            rows = [[e] + [0] * (len(names) - 1)] if (variant // 4) % 2 == 0 else [[e] + [1] * (len(names) - 1)]
            return rec.do("from_attributes", [], rows=rows, coefs=[[num(c)]], shape=[], names=names, rc="none", rn="true",
                          via="function", dtype=("int64", "float64")[(variant // 8) % 2], bigexp=e)
        x, y = mono(a, coef), mono(b, (2, -1, 5)[variant % 3])
        if x and y:
            rec.do("arith", [x[0], y[0]], keep=False, op="mul", spelling=("operator", "numpy", "numpoly")[variant % 3], bigexp=a + b)
        rec.meta["source"] = "MC_Keys"
        return rec.to_json()
    e = vec["e"]
    # the exponent table as the caller's own array, in every integer dtype that holds the exponent (narrow ones first)
    import numpy
    fits = [d for d in ("uint8", "uint16", "int16", "int32", "uint32", "int64", "uint64") if e <= numpy.iinfo(d).max]
    given = []
    if (variant // 3) % 2 == 0:
        given = [rec.new(numpy.array([[e]], dtype=fits[(variant // 6) % len(fits)])), rec.new(numpy.array(coef, dtype="int64"))]
    r = rec.do("from_attributes", given, rows=[[e]], coefs=[[num(coef)]], shape=[], names=[0], rc=("none", "true")[(variant // 2) % 2],
               rn="true", via=("function", "classmethod")[variant % 2], dtype="int64", bigexp=e)
    if r:
        rec.do("rebuild", r, keep=False, via=("raw", "attributes", "todict", "raw_polynomial")[variant % 4], bigexp=e)
        rec.do("copy", r, keep=False, how="pickle", protocol=variant % 6, bigexp=e)
        q = rec.do("from_attributes", [], rows=[[1 + variant % 7]], coefs=[[num(2)]], shape=[], names=[0], rc="none", rn="true",
                   via="function", dtype="int64", bigexp=1 + variant % 7)
        if q:
            rec.do("arith", [r[0], q[0]], keep=False, op="mul", spelling=("operator", "numpy", "numpoly")[variant % 3],
                   bigexp=e + 1 + variant % 7)
        writer = ("numpoly", "numpy")[variant % 2]
        text = dict(fmt="%d", delimiter="default", header="default", comments="default", target=("buffer", "path")[(variant // 2) % 2],
                    text=True)
        rec.do("saveload", r, keep=False, writer=writer, bigexp=e, **text)
        # the exponent in the last of two stored keys, two indeterminates
        two = rec.do("from_attributes", [], rows=[[0, 0], [1, e]], coefs=[[num(1)], [num(coef)]], shape=[], names=[0, 1],
                     rc="none", rn="true", via="function", dtype="int64", bigexp=e)
        if two:
            rec.do("saveload", two, keep=False, writer=writer, bigexp=e, **text)
    rec.meta["source"] = "MC_Keys"
    return rec.to_json()


def algebra_vectors(dump_path: str):
    out, _ = vectors(dump_path)
    out = [v for v in out if v["kind"] == "pair"]
    return out, {"vectors": len(out)}


def run_algebra_vector(vec, tid: str, prop: str, variant: int = 0) -> dict:
    """MC_Algebra pairs on derivative / gradient / hessian (C06) or call (C02)."""
    import numpy
    reset_options()
    rec = Recorder(tid, prop)
    swapped = (variant // 16) % 2 == 1
    a = rec.new(_rep_poly(vec["a"], swapped))
    b = rec.new(_rep_poly(vec["b"], swapped and variant % 3 != 0))
    if prop == "C06":
        kw = {"retain_names": bool(variant % 2), "retain_coefficients": bool((variant // 2) % 2)}
        rec.do("set_options", [], keep=False, kw=kw, bad=[], prop="C14")
        prod = rec.do("arith", [a, b], op="mul", spelling="operator", prop="C01")
        for target in [a] + prod[:1]:
            for j in (0, 1):
                how = ("index", "name", "poly", "element")[(variant + j) % 4]
                desig = {"as": "index", "v": j} if how == "index" else {"as": how, "v": "q%d" % j}
                var = {"kind": "index", "i": j, "id": -1} if how == "index" else {"kind": "name", "i": -1, "id": j}
                rec.do("deriv", [target], keep=False, fn="derivative", designators=[desig], vars=[var])
            rec.do("deriv", [target], keep=False, fn="derivative", designators=[{"as": "index", "v": 0}, {"as": "name", "v": "q1"}],
                   vars=[{"kind": "index", "i": 0, "id": -1}, {"kind": "name", "i": -1, "id": 1}])
        rec.do("deriv", [a], keep=False, fn=("gradient", "hessian")[variant % 2], vars=[])
        reset_options()
    else:
        x, y = vec["x"], vec["y"]
        carriers = [lambda v: int(v), lambda v: float(v), lambda v: numpy.int64(v), lambda v: numpy.float32(v),
                    lambda v: numpy.array(v), lambda v: numpy.int8(v)]
        cx = rec.new(carriers[variant % 6](x))
        cy = rec.new(carriers[(variant // 6) % 6](y))
        prod = rec.do("arith", [a, b], op="mul", spelling="operator", prop="C01")
        from .project import name_id
        for target in [a] + prod[:1]:
            # positional arguments bind to the names in the order the polynomial stores them
            first, second = [name_id(n) for n in rec.obj(target).names][:2]
            forms = [({"pos": [2, 3], "kw": []}, [{"name": first, "arg": 2, "how": "pos"}, {"name": second, "arg": 3, "how": "pos"}]),
                     ({"pos": [2], "kw": [["q%d" % second, 3]]}, [{"name": first, "arg": 2, "how": "pos"}, {"name": second, "arg": 3, "how": "kw"}]),
                     ({"pos": [], "kw": [["q0", 2], ["q1", 3]]}, [{"name": 0, "arg": 2, "how": "kw"}, {"name": 1, "arg": 3, "how": "kw"}]),
                     ({"pos": [0, 3], "kw": []}, [{"name": second, "arg": 3, "how": "pos"}]),           # None placeholder: partial
                     ({"pos": [2], "kw": []}, [{"name": first, "arg": 2, "how": "pos"}])]
            layout, bind = forms[(variant + (target != a)) % len(forms)]
            res = rec.do("call", [target, cx, cy], layout=layout, bind=bind, spelling=("call", "function")[variant % 2])
            if res and len(bind) == 1 and hasattr(rec.obj(res[0]), "names"):
                # finish the staged evaluation
                rest = 1 if bind[0]["name"] == 0 else 0
                names = list(rec.obj(res[0]).names)
                if "q%d" % rest in names:
                    arg = cy if rest == 1 else cx
                    rec.do("call", [res[0], arg], keep=False, layout={"pos": [], "kw": [["q%d" % rest, 2]]},
                           bind=[{"name": rest, "arg": 2, "how": "kw"}], spelling="call")
        # swap q0 <-> q1 by polynomial arguments
        q0 = rec.new(build_poly({"shape": [], "names": [0], "rows": [[1]], "coefs": [[1]], "dtype": "int64"}))
        q1 = rec.new(build_poly({"shape": [], "names": [1], "rows": [[1]], "coefs": [[1]], "dtype": "int64"}))
        first, second = [name_id(n) for n in rec.obj(a).names][:2]
        order = [q1, q0] if first == 0 else [q0, q1]
        rec.do("call", [a] + order, keep=False, layout={"pos": [2, 3], "kw": []},
               bind=[{"name": first, "arg": 2, "how": "pos"}, {"name": second, "arg": 3, "how": "pos"}], spelling="call")
    rec.meta["source"] = "MC_Algebra"
    return rec.to_json()
