SPECIFICATION Spec
CONSTANTS
  Tier = "thorough"
INVARIANT CodecInverse
INVARIANT GuaranteedRangeStorable
INVARIANT Injective
CHECK_DEADLOCK FALSE
