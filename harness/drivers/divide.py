"""C05 driver: polynomial division.  The loop observer (a wrapper around the
candidate-selection function, installed per call by the action) logs the
digest of the running dividend at every iteration and enforces an iteration
cap, so non-termination is a verdict, not a hang."""
from __future__ import annotations

import random

import numpy

from .. import gen
from ..project import build_poly
from ..record import Recorder, reset_options

DIV_COEFS = (-2.0, -1.0, -0.5, 0.5, 1.0, 2.0, 4.0)      # exact quotients stay dyadic
INT_DIV_COEFS = (-2, -1, 1, 2, 2, 4)


def poly(rng, shape, names, kind, max_terms=3, max_exp=2, pool=None, min_terms=1, allow_zero_elements=True, integer=False):
    spec = gen.rand_poly_spec(rng, shape=shape, names=names, kind=kind, max_terms=max_terms, max_exp=max_exp,
                              min_terms=min_terms)
    if pool is not None:
        size = int(numpy.prod(shape, dtype=int))
        spec["coefs"] = [[rng.choice(pool) for _ in range(size)] for _ in spec["rows"]]
        if allow_zero_elements and size > 1 and rng.random() < 0.3:
            k = rng.randrange(size)
            for row in spec["coefs"]:
                row[k] = 0.0
        spec["dtype"] = "float64"
        if integer:
            spec["coefs"] = [[int(c) for c in row] for row in spec["coefs"]]
            spec["dtype"] = "int64"
    return build_poly(spec)


def one_trace(rng, tid, prop):
    reset_options()
    rec = Recorder(tid, prop, timeout_s=20.0)
    nnames = rng.choice([1, 1, 2, 2, 3])
    names = gen.rand_names(rng, nnames, nnames, pool=(0, 1, 2))
    base = rng.choice([(), (), (2,), (2, 2), (1, 2)])
    for _ in range(rng.randint(1, 3)):
        mode = rng.choice(["general", "general", "multiple", "constant", "univariate", "numeric_left", "mixed_leads", "mixed_leads"])
        dshape = gen.broadcast_partner(rng, base)
        # integer operands (both of them in a third of the cases): quotient and remainder are fractional all the same
        integer = rng.random() < 0.35 and mode in ("general", "univariate")
        if mode == "constant":
            size = int(numpy.prod(dshape, dtype=int))
            vals = [rng.choice(DIV_COEFS) for _ in range(size)]
            if rng.random() < 0.4:
                vals[rng.randrange(size)] = 0.0          # a zero entry: quotient 0, the dividend stays as remainder
            divisor = build_poly({"shape": list(dshape), "names": list(names), "rows": [[0] * nnames],
                                  "coefs": [vals], "dtype": "float64"})
            if rng.random() < 0.3:
                divisor = numpy.array(vals).reshape(dshape) if rng.random() < 0.6 else (vals[0] if size == 1 else numpy.array(vals).reshape(dshape).tolist())
        else:
            dn = names if mode != "univariate" else names[:1]
            divisor = poly(rng, dshape, dn, "float", max_terms=rng.choice([1, 2, 2, 3]), max_exp=2,
                           pool=INT_DIV_COEFS if integer else DIV_COEFS, integer=integer)
        if mode == "mixed_leads":
            # a divisor array whose elements have DIFFERENT leading terms (and some constant entries)
            dn = names[:1] if rng.random() < 0.6 else names
            size = rng.randint(2, 3)
            nd_ = len(dn)
            rows = [[0] * nd_] + [[k] + [0] * (nd_ - 1) for k in (1, 2)] + ([[0, 1] + [0] * (nd_ - 2)] if nd_ > 1 else [])
            coefs = [[rng.choice(DIV_COEFS) for _ in range(size)] for _ in rows]
            for k in range(size):                      # element k has degree k (mod 3) in the first variable
                deg = k % 3
                for ri, row in enumerate(rows):
                    if row[0] > deg or (nd_ > 1 and ri == len(rows) - 1 and k != 1):
                        coefs[ri][k] = 0.0
                if all(coefs[ri][k] == 0.0 for ri in range(len(rows))):
                    coefs[0][k] = 2.0
            divisor = build_poly({"shape": [size], "names": list(dn), "rows": rows, "coefs": coefs, "dtype": "float64"})
        # integer operands (both of them in a third of the cases): the quotient and the remainder are fractional all the same
        d = rec.new(divisor)
        args = None
        if mode == "mixed_leads":
            nn = dn
            shape_n = rng.choice([(), (size,)])
            n = rec.new(poly(rng, shape_n, nn, "float", max_terms=4, max_exp=3, pool=(-3.0, -2.0, 1.0, 2.0, 4.0, 5.0, 7.0), allow_zero_elements=False))
            args = [n, d]
            mode = "done"
        if mode == "multiple":
            cof = poly(rng, gen.broadcast_partner(rng, base), names, "float", max_terms=2, max_exp=2,
                       pool=(-2.0, -1.0, 1.0, 2.0, 3.0, 0.5))
            c = rec.new(cof)
            n = rec.do("arith", [c, d], op="mul", spelling="operator", prop="C01")
            if not n:
                continue
            args = [n[0], d, c]
        elif mode == "numeric_left":
            n = rec.new(gen.rand_numeric(rng, gen.broadcast_partner(rng, base), "float"))
            args = [n, d]
        elif mode != "done":
            nn = names if mode != "univariate" else names[:1]
            kind = "int" if integer else rng.choice(["float", "int"])
            n = rec.new(poly(rng, base, nn, kind, max_terms=rng.choice([2, 3, 4]), max_exp=3,
                             pool=(-3.0, -2.0, -1.0, 1.0, 2.0, 4.0, 0.5) if kind == "float" else None))
            args = [n, d]
        full = rec.do("polydiv", args, fn="divmod", spelling="function", capped=False, digs=[], iterations=0)
        left = rec.obj(args[0])
        numpy_left = isinstance(left, (numpy.ndarray, numpy.generic)) and not hasattr(left, "keys")
        if numpy_left:
            # ndarray / numpy scalar on the left: one operator event (known finding: numpy's ufunc wins the dispatch)
            rec.do("polydiv", args, keep=False, fn=rng.choice(["divide", "remainder", "divmod"]), spelling="operator",
                   capped=False, digs=[], iterations=0)
        elif len(full) == 2:
            # every spelling returns exactly these components
            for fn, idx in (("divide", 0), ("remainder", 1)):
                for sp in ("function", "operator"):
                    other = rec.do("polydiv", args, fn=fn, spelling=sp, capped=False, digs=[], iterations=0)
                    if other:
                        rec.do("same", [full[idx], other[0]], keep=False)
            both = rec.do("polydiv", args, fn="divmod", spelling="operator", capped=False, digs=[], iterations=0)
            if len(both) == 2:
                rec.do("same", [full[0], both[0]], keep=False)
                rec.do("same", [full[1], both[1]], keep=False)
    return rec.to_json()


def generate(seed, n, prop="C05", start=0, **kw):
    out = []
    for i in range(start, start + n):
        rng = random.Random("divide/%d/%d" % (seed, i))
        out.append(one_trace(rng, "%s-divide-s%d-%05d" % (prop, seed, i), prop, **kw))
    return out
