------------------------------ MODULE Numpoly ------------------------------
(***************************************************************************)
(* The numpoly workspace machine: one judgment per public call.            *)
(*                                                                         *)
(* State (held by the caller: spec/Trace.tla for recorded executions, the  *)
(* MC_* modules for bounded exploration):                                  *)
(*   reg   SSA registers; reg[i] = [v |-> raw observation, d |-> its       *)
(*         denotation, dg |-> digest of everything C17 freezes]            *)
(*   opts  the option record,  ctx  the stack of open global_options blocks*)
(*                                                                         *)
(* An event ev is one public call: ev.act (action), ev.args (operand       *)
(* registers), parameters, ev.out ("ret" | "raise" | "timeout"), ev.res    *)
(* (sequence of result observations), ev.digests (digest of every earlier  *)
(* register after the call), ev.targets (registers the call may write),    *)
(* ev.opts (option record after the call).                                 *)
(*                                                                         *)
(* Judge(ev, reg, opts, ctx) evaluates the postcondition of the action as  *)
(* named clauses.  Own(...) is "ok" or the first failed clause of the      *)
(* action's own postcondition; the global clauses (well-formedness C03,    *)
(* no-poison C12, frame C17, options C14) are evaluated on every event.    *)
(***************************************************************************)
EXTENDS PolyArray, Options, Monomial, DType, TLC

HasDen(v) == v.kind \in {"poly", "array"}
DenDefined(v) == WellFormedClause(v) \notin {"wf_names", "wf_width", "wf_duplicate_rows", "wf_coef_count", "wf_coef_shape_dtype"}
MkReg(v) == [v |-> v, d |-> IF HasDen(v) /\ DenDefined(v) THEN Den(v) ELSE <<>>, dg |-> v.digest]
RangeOf(s) == {s[i] : i \in 1..Len(s)}

\* ----------------------------------------------------------- result clauses
ExpectRaise(ev, exc) ==
  IF ev.out = "raise" THEN (IF exc \in RangeOf(ev.res[1].mro) THEN "ok" ELSE "wrong_exception")
  ELSE IF ev.out = "timeout" THEN "timeout" ELSE "no_raise"
\* kind: "poly" | "array" | "any"
ExpectDenAt(ev, i, kind, exp) ==
  IF ev.out = "raise" THEN "raised" ELSE IF ev.out = "timeout" THEN "timeout"
  ELSE IF Len(ev.res) < i THEN "arity"
  ELSE LET r == ev.res[i]
       IN IF ~HasDen(r) THEN "type"
          ELSE IF kind # "any" /\ r.kind # kind THEN "type"
          ELSE IF r.shape # exp.shape THEN "shape"
          ELSE IF Den(r).el # exp.el THEN "value" ELSE "ok"
ExpectDen(ev, kind, exp) == ExpectDenAt(ev, 1, kind, exp)
First(clauses) ==     \* first clause that is not "ok"
  LET bad == SelectSeq(clauses, LAMBDA c : c # "ok") IN IF bad = <<>> THEN "ok" ELSE bad[1]

\* ------------------------------------------------------------- C01 ring ops
ArithDen(op, a, b) == DArith(op, a, b)
JArith(ev, reg) ==
  LET a == reg[ev.args[1]].d  b == reg[ev.args[2]].d
  IN IF ~BroadcastOK2(a.shape, b.shape) THEN "ok"     \* outside the property's quantifier: nothing is claimed
     ELSE IF ev.op = "pow" /\ ~(\A k \in 1..Len(b.el) : IsNatConst(b.el[k])) THEN "precondition"
     ELSE ExpectDen(ev, "poly", ArithDen(ev.op, a, b))
JUnary(ev, reg) ==
  LET a == reg[ev.args[1]].d
  IN ExpectDen(ev, "poly", CASE ev.op = "neg" -> DNeg(a) [] ev.op = "pos" -> a
                                [] ev.op = "square" -> DMul(a, a))

\* ------------------------------------------ C09 shape functions and indexing
\* ev.gather: what numpy does with the positions (observed on label arrays);
\* ev.model: parameters for the specification's own gather map (core subset)
ModelGather(m, ss) ==
  CASE m.fn = "reshape" -> GReshape(ss[1], m.shape)
    [] m.fn = "transpose" -> GTranspose(ss[1], m.perm)
    [] m.fn = "concat" -> GConcat(ss, m.axis)
    [] m.fn = "index" -> GIndex(ss[1], m.items)
SameDType(ev, reg) ==      \* the common dtype of the polynomial operands, if there is one
  LET ds == {reg[ev.args[i]].v.dtype : i \in 1..Len(ev.args)}
  IN IF Cardinality(ds) = 1 THEN CHOOSE d \in ds : TRUE ELSE ""
OperandNames(ev, reg) ==        \* a plain number / array among the operands becomes a polynomial in q0 (as in JAlign)
  UNION {IF reg[ev.args[i]].v.kind = "poly" THEN RangeOf(reg[ev.args[i]].v.names) ELSE {0} : i \in 1..Len(ev.args)}
JMove(ev, reg, opts) ==
  LET ds == [i \in 1..Len(ev.args) |-> reg[ev.args[i]].d]
      ss == [i \in 1..Len(ev.args) |-> ds[i].shape]
      dt == SameDType(ev, reg)
  IN IF ev.out = "raise" THEN "raised" ELSE IF ev.out = "timeout" THEN "timeout"
     ELSE IF Len(ev.res) # Len(ev.gather) THEN "arity"
     ELSE IF \E i \in 1..Len(ev.gather) : ~GatherOK(ev.gather[i], ss) THEN "machinery_gather"
     ELSE IF ev.model # <<>> /\ ModelGather(ev.model[1], ss) # ev.gather[1] THEN "machinery_gather_model"
     ELSE First([i \in 1..Len(ev.gather) |->
            LET own == ExpectDenAt(ev, i, "poly", DGather(ev.gather[i], ds))
                r == ev.res[i]
            IN IF own # "ok" THEN own
               ELSE IF dt # "" /\ r.dtype # dt THEN "dtype"
               ELSE IF ~(RangeOf(r.names) \subseteq OperandNames(ev, reg)) THEN "names"
               ELSE IF opts.retain_names /\ Len(ev.args) = 1 /\ r.names # reg[ev.args[1]].v.names THEN "names"
               ELSE "ok"])

\* ------------------------------------------------ C10 reductions, linear algebra
\* ev.axes: the axes given (possibly negative); ev.axis_none: no axis given
AxesOf(ev, nd) == IF ev.axis_none THEN 0..(nd - 1) ELSE {NormAxis(ev.axes[i], nd) : i \in 1..Len(ev.axes)}
OptArg(ev, reg, flag, pos) == IF flag THEN <<reg[ev.args[pos]].d>> ELSE <<>>
\* diff: prepend / append are joined to the array before differencing, so the result carries numpy's promoted dtype of
\* all operands (a Python number counts as the array numpy makes of it); with n = 0 the input comes back as it is.
\* ediff1d: to_begin / to_end are cast to the array's dtype (numpy refuses them unless that cast is "same kind").
DiffDType(ev, reg) ==
  LET want == IF ev.n = 0 THEN reg[ev.args[1]].v.dtype
              ELSE FoldLeft(LAMBDA acc, x : Promote(acc, reg[x].v.dtype), reg[ev.args[1]].v.dtype, ev.args)
  IN IF ev.res[1].dtype # want THEN "dtype" ELSE "ok"
KindRank(d) == CASE Kind(d) = "b" -> 0 [] Kind(d) \in {"u", "i"} -> 1 [] Kind(d) = "f" -> 2 [] Kind(d) = "c" -> 3
EDiffAccepted(ev, reg) == \A i \in 2..Len(ev.args) : KindRank(reg[ev.args[i]].v.dtype) <= KindRank(reg[ev.args[1]].v.dtype)
JReduce(ev, reg) ==
  LET a == reg[ev.args[1]].d
      nd == Len(a.shape)
  IN CASE ev.fn = "sum" -> ExpectDen(ev, "poly", DSumAxes(a, AxesOf(ev, nd), ev.keepdims))
       [] ev.fn = "prod" -> ExpectDen(ev, "poly", DProdAxes(a, AxesOf(ev, nd), ev.keepdims))
       [] ev.fn = "cumsum" ->
            ExpectDen(ev, "poly", IF ev.axis_none THEN DCumSumAxis(DRavel(a), 0)
                                  ELSE DCumSumAxis(a, NormAxis(ev.axes[1], nd)))
       [] ev.fn = "mean" ->
            LET A == AxesOf(ev, nd)
                s == DSumAxes(a, A, ev.keepdims)
                cnt == Size([j \in 1..nd |-> IF (j - 1) \in A THEN a.shape[j] ELSE 1])
            IN IF ev.out # "ret" THEN "raised"
               ELSE IF ~HasDen(ev.res[1]) \/ ev.res[1].kind # "poly" THEN "type"
               ELSE IF ev.res[1].shape # s.shape THEN "shape"
               ELSE LET r == Den(ev.res[1])
                    IN IF \A k \in 1..Len(s.el) : EClose(EScale(NInt(cnt), r.el[k]), s.el[k], 40)
                       THEN "ok" ELSE "value"
       [] ev.fn = "diff" ->
            LET ax == NormAxis(ev.axes[1], nd)
                pre == OptArg(ev, reg, ev.has_pre, 2)
                app == OptArg(ev, reg, ev.has_app, IF ev.has_pre THEN 3 ELSE 2)
                own == ExpectDen(ev, "poly", DDiff(a, ev.n, ax, pre, app))
            IN IF own # "ok" THEN own ELSE DiffDType(ev, reg)
       [] ev.fn = "ediff1d" ->
            LET bg == OptArg(ev, reg, ev.has_pre, 2)
                en == OptArg(ev, reg, ev.has_app, IF ev.has_pre THEN 3 ELSE 2)
                own == ExpectDen(ev, "poly", DEDiff1d(a, bg, en))
            IN IF ~EDiffAccepted(ev, reg) THEN "ok"          \* numpy itself refuses these arguments: outside the quantifier
               ELSE IF own # "ok" THEN own
               ELSE IF ev.res[1].dtype # reg[ev.args[1]].v.dtype THEN "dtype" ELSE "ok"
       [] ev.fn = "inner" ->
            LET b == reg[ev.args[2]].d
            IN IF Len(a.shape) # 1 \/ b.shape # a.shape THEN "ok"       \* only vectors are claimed
               ELSE ExpectDen(ev, "poly", DInnerVec(a, b))
       [] ev.fn = "outer" -> ExpectDen(ev, "poly", DOuter(a, reg[ev.args[2]].d))
       [] ev.fn = "matmul" ->
            LET b == reg[ev.args[2]].d
            IN IF ~MatMulOK(a.shape, b.shape) THEN "ok" ELSE ExpectDen(ev, "poly", DMatMul(a, b))
       [] ev.fn = "det" ->
            IF nd < 2 \/ a.shape[nd] # a.shape[nd - 1] THEN "ok" ELSE ExpectDen(ev, "poly", DDet(a))

\* ----------------------------------------------------- C07 comparison operators
SortedNames(S) == SetToSortSeq(S, LAMBDA x, y : x < y)
NToInt(x) == BToInt(x.r)
BoolNum(b) == IF b THEN NOne ELSE NZero
RegNames(r) == IF r.v.kind = "poly" THEN RangeOf(r.v.names) ELSE {}
CmpHolds(op, c) == CASE op = "lt" -> c < 0 [] op = "le" -> c <= 0 [] op = "gt" -> c > 0
                     [] op = "ge" -> c >= 0 [] op = "eq" -> c = 0 [] op = "ne" -> c # 0
JCompare(ev, reg, opts) ==
  LET a == reg[ev.args[1]].d  b == reg[ev.args[2]].d
      dims == SortedNames(DNames(a) \cup DNames(b))
  IN IF ~BroadcastOK2(a.shape, b.shape) THEN "ok"
     ELSE LET t == BShape2(a.shape, b.shape)
              want == [k \in 1..Size(t) |->
                         BoolNum(CmpHolds(ev.op, ECmp(a.el[BSrc(k, t, a.shape)], b.el[BSrc(k, t, b.shape)],
                                                     dims, opts.sort_graded, opts.sort_reverse)))]
          IN IF ev.out # "ret" THEN "raised"
             ELSE LET r == ev.res[1]
                  IN IF r.kind # "array" \/ r.dtype # "bool" THEN "type"
                     ELSE IF r.shape # t THEN "shape"
                     ELSE IF r.vals # want THEN "value" ELSE "ok"
JExtreme(ev, reg, opts) ==       \* maximum / minimum
  LET a == reg[ev.args[1]].d  b == reg[ev.args[2]].d
      dims == SortedNames(DNames(a) \cup DNames(b))
      pick(f, g) == LET c == ECmp(f, g, dims, opts.sort_graded, opts.sort_reverse)
                    IN IF ev.op = "maximum" THEN (IF c >= 0 THEN f ELSE g) ELSE (IF c <= 0 THEN f ELSE g)
  IN IF ~BroadcastOK2(a.shape, b.shape) THEN "ok" ELSE ExpectDen(ev, "poly", Lift2(pick, a, b))

\* ------------------------------------------------ C19 leading terms and friends
\* order of elements used by the sort proxy: leading monomial, then leading coefficient
KeyLess(f, g, dims, graded, reverse) ==
  LET mf == ELeadMono(f, dims, graded, reverse)  mg == ELeadMono(g, dims, graded, reverse)
  IN IF mf # mg THEN MLess(mf, mg, dims, graded, reverse)
     ELSE NCmp(ELeadCoef(f, dims, graded, reverse), ELeadCoef(g, dims, graded, reverse)) < 0
IntVals(r) == [k \in 1..Len(r.vals) |-> NToInt(r.vals[k])]
JLead(ev, reg, opts) ==
  LET v == reg[ev.args[1]].v
      a == reg[ev.args[1]].d
      names == IF v.kind = "poly" THEN v.names ELSE <<0>>
      dims == SortedNames(RangeOf(names))      \* the monomial order refers to the indeterminates in index order,
                                                \* whatever order the names are stored in (columns follow `names`)
      nn == Len(names)
      n == Len(a.el)
  IN IF ev.out # "ret" THEN "raised"
     ELSE LET r == ev.res[1] IN
     CASE ev.fn = "lead_exponent" ->
            IF r.kind # "array" THEN "type"
            ELSE IF r.shape # a.shape \o <<nn>> THEN "shape"
            ELSE IF IntVals(r) = [k \in 1..(n * nn) |->
                       MExp(ELeadMono(a.el[1 + ((k - 1) \div nn)], dims, ev.graded, ev.reverse),
                            names[1 + ((k - 1) % nn)])]
                 THEN "ok" ELSE "value"
       [] ev.fn = "lead_coefficient" ->
            IF r.kind # "array" THEN "type"
            ELSE IF r.shape # a.shape THEN "shape"
            ELSE IF r.vals = [k \in 1..n |-> ELeadCoef(a.el[k], dims, ev.graded, ev.reverse)]
                 THEN "ok" ELSE "value"
       [] ev.fn = "isconstant" ->
            IF r.kind # "array" \/ r.shape # <<>> THEN "type"
            ELSE IF r.vals[1] = BoolNum(DConst(a)) THEN "ok" ELSE "value"
       [] ev.fn = "sortable_proxy" ->
            IF r.kind # "array" THEN "type"
            ELSE IF r.shape # a.shape THEN "shape"
            ELSE LET pr == IntVals(r)
                 IN IF ~IsPermutation(pr, n) THEN "value_not_permutation"
                    ELSE IF \A i, j \in 1..n :
                              KeyLess(a.el[i], a.el[j], dims, ev.graded, ev.reverse) => pr[i] < pr[j]
                         THEN "ok" ELSE "value"
       [] ev.fn \in {"argmax", "argmin"} ->
            IF r.kind # "array" \/ r.shape # <<>> THEN "type"
            ELSE LET i == NToInt(r.vals[1]) + 1
                 IN IF i \notin 1..n THEN "value"
                    ELSE IF \A j \in 1..n :
                              IF ev.fn = "argmax"
                              THEN ~KeyLess(a.el[i], a.el[j], dims, opts.sort_graded, opts.sort_reverse)
                              ELSE ~KeyLess(a.el[j], a.el[i], dims, opts.sort_graded, opts.sort_reverse)
                         THEN "ok" ELSE "value"
       [] ev.fn \in {"amax", "amin"} ->
            IF r.kind # "poly" THEN "type"
            ELSE IF r.shape # (IF "keepdims" \in DOMAIN ev /\ ev.keepdims
                               THEN [i \in 1..Len(a.shape) |-> 1] ELSE <<>>) THEN "shape"
            ELSE LET f == Den(r).el[1]
                 IN IF \E i \in 1..n : /\ a.el[i] = f
                                       /\ \A j \in 1..n :
                                            IF ev.fn = "amax"
                                            THEN ~KeyLess(a.el[i], a.el[j], dims, opts.sort_graded, opts.sort_reverse)
                                            ELSE ~KeyLess(a.el[j], a.el[i], dims, opts.sort_graded, opts.sort_reverse)
                    THEN "ok" ELSE "value"
JToNumpy(ev, reg) ==
  LET a == reg[ev.args[1]].d
  IN IF ~DConst(a) THEN ExpectRaise(ev, "FeatureNotSupported")
     ELSE ExpectDen(ev, "array", a)
JToDict(ev, reg) ==       \* ev.rows / ev.coefs: the dictionary as observed
  LET v == reg[ev.args[1]].v  a == reg[ev.args[1]].d
  IN IF ev.out # "ret" THEN "raised"
     ELSE IF ~Distinct(ev.rows) THEN "value_duplicate_keys"
     ELSE IF \E r \in 1..Len(ev.rows) : Len(ev.rows[r]) # Len(v.names) \/ Len(ev.coefs[r]) # Len(a.el) THEN "shape"
     ELSE IF PolyDen([shape |-> a.shape, names |-> v.names, rows |-> ev.rows, coefs |-> ev.coefs]).el = a.el
          THEN "ok" ELSE "value"
JDecompose(ev, reg) ==
  LET a == reg[ev.args[1]].d
  IN IF ev.out # "ret" THEN "raised"
     ELSE LET r == ev.res[1] IN
          IF r.kind # "poly" THEN "type"
          ELSE IF Len(r.shape) # Len(a.shape) + 1 \/ SubSeq(r.shape, 2, Len(r.shape)) # a.shape THEN "shape"
          ELSE LET d == Den(r)
                   m == r.shape[1]
                   n == Len(a.el)
               IN IF DSumAxes(d, {0}, FALSE).el # a.el THEN "value_sum"
                  ELSE IF \A i \in 1..m :
                            Cardinality(UNION {DOMAIN d.el[(i - 1) * n + k] : k \in 1..n}) <= 1
                       THEN "ok" ELSE "value_slice"
JSetDimensions(ev, reg) ==
  LET v == reg[ev.args[1]].v  a == reg[ev.args[1]].d
      nn == Len(v.names)
      keep == IF ev.dims < nn THEN {v.names[j] : j \in 1..ev.dims} ELSE RangeOf(v.names)
      cut(f) == [m \in {x \in DOMAIN f : DOMAIN x \subseteq keep} |-> f[m]]
  IN IF ev.out # "ret" THEN "raised"
     ELSE LET own == ExpectDen(ev, "poly", Lift1(cut, a)) IN
          IF own # "ok" THEN own
          ELSE IF Len(ev.res[1].names) # ev.dims THEN "names"
          ELSE IF ev.dims <= nn /\ ev.res[1].names # SubSeq(v.names, 1, ev.dims) THEN "names"
          ELSE IF ev.dims > nn /\ ~(RangeOf(v.names) \subseteq RangeOf(ev.res[1].names)) THEN "names"
          ELSE "ok"

\* ---------------------------------------------------- C18 index utilities
RowsOf(vals, d) == [i \in 1..(Len(vals) \div d) |-> [j \in 1..d |-> NToInt(vals[(i - 1) * d + j])]]
LoNorm(q) == IF NormDecidable(q) THEN q ELSE "0"      \* for 0 < p < 1:  L_0 ball <= L_p ball <= L_1 ball
HiNorm(q) == IF NormDecidable(q) THEN q ELSE "1"
IndexRowsOK(rows, ev) ==       \* first failing clause for a list of index rows
  LET lo == GlexIndexSet(ev.start, ev.stop, HiNorm(ev.qlow), LoNorm(ev.qup))
      hi == GlexIndexSet(ev.start, ev.stop, LoNorm(ev.qlow), HiNorm(ev.qup))
      got == RangeOf(rows)
      ordered == IF ev.inverse THEN Reverse(rows) ELSE rows
  IN IF Cardinality(got) # Len(rows) THEN "value_duplicates"
     ELSE IF ~(lo \subseteq got) THEN "value_missing"
     ELSE IF ~(got \subseteq hi) THEN "value_extra"
     ELSE IF ~StrictlySorted(ordered, ev.graded, ev.reverse) THEN "value_order"
     ELSE "ok"
JIndex(ev, reg) ==
  IF ev.out # "ret" THEN "raised"
  ELSE LET r == ev.res[1] IN
  CASE ev.fn = "glexsort" ->
         LET nr == Len(ev.keys)
             nc == IF nr = 0 THEN 0 ELSE Len(ev.keys[1])
             cols == [c \in 1..nc |-> [x \in 1..nr |-> ev.keys[x][c]]]
         IN IF r.kind # "array" THEN "type"
            ELSE IF r.shape # <<nc>> THEN "shape"
            ELSE IF SortsColumns(IntVals(r), cols, ev.graded, ev.reverse) THEN "ok" ELSE "value"
    [] ev.fn \in {"glexindex", "bindex"} ->
         IF r.kind # "array" THEN "type"
         ELSE IF Len(r.shape) # 2 \/ r.shape[2] # Len(ev.stop) THEN "shape"
         ELSE IndexRowsOK(RowsOf(r.vals, Len(ev.stop)), ev)
    [] ev.fn = "monomial" ->
         IF r.kind # "poly" THEN "type"
         ELSE IF Len(r.shape) # 1 THEN "shape"
         ELSE LET d == Den(r)
                  single == \A k \in 1..Len(d.el) : Cardinality(DOMAIN d.el[k]) = 1
              IN IF ~single THEN "value_not_monomial"
                 ELSE IF \E k \in 1..Len(d.el) : d.el[k][CHOOSE m \in DOMAIN d.el[k] : TRUE] # NOne THEN "value_coefficient"
                 ELSE IF Len(r.names) # Len(ev.stop) THEN "names"
                 ELSE IF ev.dim_names # <<>> /\ r.names # ev.dim_names THEN "names"      \* `dimensions` given as names
                 ELSE IF ev.dim_names = <<>> /\ r.names # [j \in 1..Len(ev.stop) |-> j - 1] THEN "names"
                 ELSE IndexRowsOK([k \in 1..Len(d.el) |->
                         LET m == CHOOSE mm \in DOMAIN d.el[k] : TRUE
                         IN [j \in 1..Len(r.names) |-> MExp(m, r.names[j])]], ev)
    [] ev.fn = "cross_truncate" ->
         IF r.kind # "array" \/ r.dtype # "bool" THEN "type"
         ELSE IF r.shape # <<Len(ev.indices)>> THEN "shape"
         ELSE IF ~NormDecidable(ev.norm) THEN
              (IF \A i \in 1..Len(ev.indices) :
                     /\ (InCross(ev.indices[i], ev.bound, "0") => r.vals[i] = NOne)
                     /\ (r.vals[i] = NOne => InCross(ev.indices[i], ev.bound, "1"))
               THEN "ok" ELSE "value")
         ELSE IF r.vals = [i \in 1..Len(ev.indices) |-> BoolNum(InCross(ev.indices[i], ev.bound, ev.norm))]
              THEN "ok" ELSE "value"

\* -------------------------------------------------- C02 evaluation / substitution
\* ev.args[1]: the polynomial; ev.bind: <<[name |-> name id, arg |-> position in ev.args, how |-> "pos"|"kw"]>>
\* for every SUPPLIED value (None placeholders are not listed)
JCall(ev, reg) ==
  LET v == reg[ev.args[1]].v
      p == reg[ev.args[1]].d
      pnames == IF v.kind = "poly" THEN RangeOf(v.names) ELSE {0}
      Bd == ev.bind
      unknown == \E i \in 1..Len(Bd) : Bd[i].name \notin pnames
      doubled == \E i, j \in 1..Len(Bd) : i # j /\ Bd[i].name = Bd[j].name
  IN IF unknown \/ doubled THEN ExpectRaise(ev, "TypeError")
     ELSE LET argd(i) == reg[ev.args[Bd[i].arg]].d
              T == BShape([i \in 1..Len(Bd) |-> argd(i).shape])
              okb == BroadcastOK([i \in 1..Len(Bd) |-> argd(i).shape])
              full == /\ pnames = {Bd[i].name : i \in 1..Len(Bd)}
                      /\ \A i \in 1..Len(Bd) : DConst(argd(i))
              np == Len(p.el)  nt == Size(T)
              want == [shape |-> p.shape \o T,
                       el |-> [k \in 1..(np * nt) |->
                          LET ip == 1 + ((k - 1) \div nt)  it == 1 + ((k - 1) % nt)
                              sub == [n \in {Bd[i].name : i \in 1..Len(Bd)} |->
                                        LET i == CHOOSE x \in 1..Len(Bd) : Bd[x].name = n
                                        IN argd(i).el[BSrc(it, T, argd(i).shape)]]
                          IN ESubst(p.el[ip], sub)]]
          IN IF ~okb THEN "ok"
             ELSE ExpectDen(ev, IF full THEN "array" ELSE "any", want)

\* --------------------------------------------- C06 derivative, gradient, Hessian
\* ev.vars: <<[kind |-> "index", i |-> 0-based position] | [kind |-> "name", id |-> name id]>>
VarName(x, names) == IF x.kind = "index" THEN names[x.i + 1] ELSE x.id
RECURSIVE DerivSeq(_, _)
DerivSeq(f, ns) == IF ns = <<>> THEN f ELSE DerivSeq(EDeriv(f, Head(ns)), Tail(ns))
JDeriv(ev, reg) ==
  LET v == reg[ev.args[1]].v
      a == reg[ev.args[1]].d
      names == IF v.kind = "poly" THEN v.names ELSE <<0>>
      D == Len(names)
      n == Len(a.el)
  IN CASE ev.fn = "derivative" ->
            IF \E i \in 1..Len(ev.vars) :
                   (ev.vars[i].kind = "index" /\ ev.vars[i].i \notin 0..(D - 1))
                   \/ (ev.vars[i].kind = "name" /\ ev.vars[i].id \notin RangeOf(names))
            THEN "ok"        \* a variable the polynomial does not have: nothing is claimed
            ELSE LET ns == [i \in 1..Len(ev.vars) |-> VarName(ev.vars[i], names)]
                 IN ExpectDen(ev, "poly", Lift1(LAMBDA f : DerivSeq(f, ns), a))
       [] ev.fn = "gradient" ->
            ExpectDen(ev, "poly", [shape |-> <<D>> \o a.shape,
                                   el |-> [k \in 1..(D * n) |->
                                             EDeriv(a.el[1 + ((k - 1) % n)], names[1 + ((k - 1) \div n)])]])
       [] ev.fn = "hessian" ->
            ExpectDen(ev, "poly", [shape |-> <<D, D>> \o a.shape,
                                   el |-> [k \in 1..(D * D * n) |->
                                             LET i == (k - 1) \div (D * n)
                                                 j == ((k - 1) \div n) % D
                                             IN EDeriv(EDeriv(a.el[1 + ((k - 1) % n)], names[j + 1]), names[i + 1])]])

\* ------------------------------------- C03 construction from attributes, rebuilding
Flag(f, dflt) == IF f = "none" THEN dflt ELSE f = "true"
\* ev.rows, ev.coefs (per row, flattened), ev.shape, ev.names, ev.rc / ev.rn ("none" | "true" | "false")
JFromAttributes(ev, opts) ==
  LET rows == ev.rows  coefs == ev.coefs  names == ev.names
      nr == Len(rows)
      width == IF nr = 0 THEN 0 ELSE Len(rows[1])
      rc == Flag(ev.rc, opts.retain_coefficients)
      rn == Flag(ev.rn, opts.retain_names)
      lenBad == Len(coefs) # nr \/ Len(names) # width
      namesBad == ~Distinct(names)
      keep == CleanKeep(rows, coefs, rc)
      dupKept == ~Distinct([i \in 1..Len(keep) |-> rows[keep[i]]])
      dupAny == ~Distinct(rows)
      \* exponents that no polynomial can carry (negative, or beyond what a storage key can encode; the recorder clamps
      \* them to -1 / ExpClamp): any error is right, a polynomial with some other exponent is not (C20)
      unrepresentable == \E r \in 1..nr : \E j \in 1..Len(rows[r]) : rows[r][j] < 0 \/ rows[r][j] >= ExpClamp
  IN IF unrepresentable THEN (IF ev.out = "raise" THEN "ok" ELSE "value_unrepresentable_exponent_accepted")
     ELSE IF lenBad \/ namesBad \/ dupKept THEN ExpectRaise(ev, "PolynomialConstructionError")
     ELSE IF dupAny /\ ev.out = "raise" THEN ExpectRaise(ev, "PolynomialConstructionError")   \* duplicate among dropped zero terms: either outcome
     ELSE IF ev.out # "ret" THEN "raised"
     ELSE LET r == ev.res[1]
              want == CleanTriple(rows, coefs, names, Size(ev.shape), rc, rn)
          IN IF r.kind # "poly" THEN "type"
             ELSE IF r.shape # ev.shape THEN "shape"
             ELSE IF r.names # want.names THEN "names"
             ELSE IF RangeOf(r.rows) # RangeOf(want.rows) \/ Len(r.rows) # Len(want.rows) THEN "rows"
             ELSE IF \E i \in 1..Len(want.rows) : r.coefs[CHOOSE x \in 1..Len(r.rows) : r.rows[x] = want.rows[i]] # want.coefs[i] THEN "value"
             ELSE "ok"
\* rebuilding a polynomial from its own attributes / raw view / dictionary
JRebuild(ev, reg, opts) ==
  LET v == reg[ev.args[1]].v  a == reg[ev.args[1]].d
      own == ExpectDen(ev, IF ev.via = "indeterminants_call" THEN "any" ELSE "poly", a)
  IN IF v.kind # "poly" THEN "machinery_operand"
     ELSE IF own # "ok" THEN own
     ELSE IF ev.res[1].kind # "poly" THEN "ok"
     ELSE IF ev.via # "sympy" /\ ev.res[1].dtype # v.dtype THEN "dtype"
     ELSE IF ev.via # "sympy" /\ opts.retain_names /\ ev.res[1].names # v.names THEN "names"
     ELSE "ok"
\* numpoly.variable(n) / symbols: the array of the n indeterminates q0 .. q(n-1) (0-d for n = 1)
JVariable(ev) ==
  LET want == [shape |-> IF ev.n = 1 THEN <<>> ELSE <<ev.n>>,
               el |-> [k \in 1..ev.n |-> ETerm(NOne, MVar(ev.ids[k]))]]
      own == ExpectDen(ev, "poly", want)
  IN IF own # "ok" THEN own ELSE IF ev.res[1].names # ev.ids THEN "names" ELSE "ok"

\* ---------------------------------------------------------------- C04 alignment
OpNames(r) == IF r.v.kind = "poly" THEN RangeOf(r.v.names) ELSE {0}     \* a number becomes a polynomial in q0
JAlign(ev, reg, opts) ==
  LET n == Len(ev.args)
      ds == [i \in 1..n |-> reg[ev.args[i]].d]
      shapes == [i \in 1..n |-> ds[i].shape]
      doShape == ev.fn \in {"align_shape", "align_polynomials"}
      doNames == ev.fn \in {"align_indeterminants", "align_exponents", "align_polynomials"}
      doRows == ev.fn \in {"align_exponents", "align_polynomials"}
      common == BShape(shapes)
      allNames == SortedNames(UNION {OpNames(reg[ev.args[i]]) : i \in 1..n})
      \* operands that already carry one identical name tuple are aligned as far as names go, even if that tuple is
      \* not in index order ("aligning already aligned arguments changes nothing"): both tuples are accepted then
      inNames == {IF reg[ev.args[i]].v.kind = "poly" THEN reg[ev.args[i]].v.names ELSE <<0>> : i \in 1..n}
      NamesOK(nm) == nm = allNames \/ (Cardinality(inNames) = 1 /\ nm \in inNames)
  IN IF doShape /\ ~BroadcastOK(shapes) THEN "ok"
     ELSE IF ev.out # "ret" THEN "raised"
     ELSE IF Len(ev.res) # n THEN "arity"
     ELSE First([i \in 1..n |->
            LET r == ev.res[i]
                want == IF doShape THEN DBroadcast(ds[i], common) ELSE ds[i]
                own == ExpectDenAt(ev, i, "poly", want)
            IN IF own # "ok" THEN own
               \* alignment changes the layout, not the coefficient type of an operand that carries one
               ELSE IF reg[ev.args[i]].v.kind = "poly" /\ r.dtype # reg[ev.args[i]].v.dtype THEN "dtype"
               ELSE IF doNames /\ opts.retain_names /\ ~NamesOK(r.names) THEN "names"
               ELSE IF doNames /\ (r.names # ev.res[1].names \/ ~(RangeOf(r.names) \subseteq RangeOf(allNames))) THEN "names"
               ELSE IF doRows /\ (r.rows # ev.res[1].rows \/ r.keys # ev.res[1].keys) THEN "rows"
               ELSE "ok"])
\* aligning aligned arguments changes nothing (representation level)
JRealign(ev, reg) ==
  LET n == Len(ev.args)
  IN IF ev.out # "ret" THEN "raised"
     ELSE IF Len(ev.res) # n THEN "arity"
     ELSE First([i \in 1..n |->
            LET r == ev.res[i]  o == reg[ev.args[i]].v
            IN IF r.kind # "poly" \/ o.kind # "poly" THEN "type"
               ELSE IF r.shape # o.shape THEN "shape"
               ELSE IF r.names # o.names THEN "names"
               ELSE IF r.rows # o.rows \/ r.keys # o.keys THEN "rows"
               ELSE IF r.coefs # o.coefs THEN "value" ELSE "ok"])

\* ------------------------------------------------------- C17 explicit output targets
\* copyto(dst, src, where=mask): ev.args = <<dst, src>>, ev.targets = <<dst>>, ev.after = <<dst afterwards>>,
\* ev.mask: <<>> (no mask) or the boolean mask flattened over dst's shape
JCopyTo(ev, reg) ==
  LET dst == reg[ev.args[1]].d  src == reg[ev.args[2]].d
  IN IF ~BroadcastsTo(src.shape, dst.shape) THEN "ok"
     ELSE IF ev.out # "ret" THEN "raised"
     ELSE LET b == DBroadcast(src, dst.shape)
              want == [k \in 1..Len(dst.el) |-> IF ev.mask = <<>> \/ ev.mask[k] THEN b.el[k] ELSE dst.el[k]]
              got == ev.after[1]
          IN IF ~HasDen(got) \/ ~DenDefined(got) THEN "type"
             ELSE IF got.shape # dst.shape THEN "shape"
             ELSE IF Den(got).el # want THEN "value" ELSE "ok"

\* ------------------------------------------------------------------ C12 dtypes
DCast(d, dt) == Lift1(LAMBDA f : EClean([m \in DOMAIN f |-> Cast(f[m], dt)]), d)
JDType(ev, reg) ==
  CASE ev.fn = "dtype_pair" ->          \* binds DType.tla to numpy.result_type
         IF Promote(ev.a, ev.b) = ev.np THEN "ok" ELSE "machinery_dtype_model"
    [] ev.fn = "cast" ->                \* binds Cast to ndarray.astype
         IF [k \in 1..Len(ev.vals) |-> Cast(ev.vals[k], ev.to)] = ev.np_vals THEN "ok" ELSE "machinery_cast_model"
    [] ev.fn = "construct" ->           \* polynomial / aspolynomial / astype / from data, with or without dtype=
         LET src == reg[ev.args[1]]
             target == IF ev.dtype = "" THEN src.v.dtype ELSE ev.dtype
             own == ExpectDen(ev, "poly", DCast(src.d, target))
         IN IF own # "ok" THEN own ELSE IF ev.res[1].dtype # target THEN "dtype" ELSE "ok"
    [] ev.fn = "variable" ->
         LET own == JVariable(ev)
         IN IF own # "ok" THEN own ELSE IF ev.res[1].dtype # ev.dtype THEN "dtype" ELSE "ok"
    [] ev.fn = "arith" ->
         LET a == reg[ev.args[1]]  b == reg[ev.args[2]]
             target == IF ev.op = "pow" THEN a.v.dtype ELSE Promote(a.v.dtype, b.v.dtype)      \* ** keeps the base's dtype
         IN IF ~BroadcastOK2(a.d.shape, b.d.shape) THEN "ok"
            ELSE LET own == ExpectDen(ev, "poly", DCast(DArith(ev.op, a.d, b.d), target))
                 IN IF own # "ok" THEN own ELSE IF ev.res[1].dtype # target THEN "dtype" ELSE "ok"

\* -------------------------------------------------------- C05 polynomial division
\* ev.args = <<dividend, divisor>> (+ <<cofactor>> when the dividend was built as cofactor * divisor)
\* ev.fn: "divmod" | "divide" | "remainder"; ev.digs: digest of the running dividend at every loop iteration
\* (from the loop observer); ev.capped: the observer stopped the loop at the iteration cap
DEqualClose(x, y, bits) ==
  /\ x.shape = y.shape
  /\ \A k \in 1..Len(x.el) : x.el[k] = y.el[k] \/ EClose(x.el[k], y.el[k], bits)
UniDeg(f) == IF f = EZero THEN -1 ELSE MDeg(MMax(DOMAIN f, <<>>, TRUE, FALSE))
JPolyDiv(ev, reg) ==
  LET n == reg[ev.args[1]].d  d == reg[ev.args[2]].d
  IN IF ~BroadcastOK2(n.shape, d.shape) THEN "ok"
     ELSE IF ev.capped \/ ev.out = "timeout" THEN "nontermination"
     ELSE IF ~Distinct(ev.digs) THEN "nontermination_repeat"
     ELSE IF ev.out # "ret" THEN "raised"
     ELSE LET t == BShape2(n.shape, d.shape)
              nb == DBroadcast(n, t)  db == DBroadcast(d, t)
              hasQ == ev.fn \in {"divmod", "divide"}
              hasR == ev.fn \in {"divmod", "remainder"}
              qv == ev.res[1]
              rv == IF ev.fn = "divmod" THEN ev.res[2] ELSE ev.res[1]
          IN IF Len(ev.res) # (IF ev.fn = "divmod" THEN 2 ELSE 1) THEN "arity"
             ELSE IF \E i \in 1..Len(ev.res) : ~HasDen(ev.res[i]) \/ ev.res[i].kind # "poly" THEN "type"
             ELSE IF \E i \in 1..Len(ev.res) : ev.res[i].shape # t THEN "shape"
             ELSE LET q == Den(qv)  r == Den(rv)
                  IN IF ev.fn = "divmod" /\ ~DEqualClose(DAdd(DMul(q, db), r), nb, 40) THEN "value_identity"
                     ELSE IF \E k \in 1..Len(db.el) :
                               /\ db.el[k] # EZero /\ EIsConst(db.el[k])      \* non-zero constant divisor
                               /\ \/ (hasQ /\ ~(EMul(q.el[k], db.el[k]) = nb.el[k] \/ EClose(EMul(q.el[k], db.el[k]), nb.el[k], 40)))
                                  \/ (hasR /\ r.el[k] # EZero)
                          THEN "value_constant_divisor"
                     ELSE IF Len(ev.args) = 3 /\          \* dividend = cofactor * divisor: r = 0, q = cofactor
                             LET c == DBroadcast(reg[ev.args[3]].d, t)
                             IN \E k \in 1..Len(db.el) : db.el[k] # EZero /\
                                   ((hasR /\ r.el[k] # EZero) \/ (hasQ /\ ~(q.el[k] = c.el[k] \/ EClose(q.el[k], c.el[k], 40))))
                          THEN "value_exact_multiple"
                     ELSE IF hasR /\ Cardinality(DNames(nb) \cup DNames(db)) <= 1 /\
                             \E k \in 1..Len(db.el) : db.el[k] # EZero /\ UniDeg(r.el[k]) >= UniDeg(db.el[k])
                          THEN "value_degree"
                     ELSE IF hasR /\ \E k \in 1..Len(db.el) :       \* a single-term divisor divides no term of the remainder
                             /\ Cardinality(DOMAIN db.el[k]) = 1
                             /\ \E m \in DOMAIN r.el[k] : MDivides(CHOOSE x \in DOMAIN db.el[k] : TRUE, m)
                          THEN "value_not_reduced"
                     ELSE "ok"
\* two registers hold the same value (spellings of one operation)
JSame(ev, reg) ==
  LET a == reg[ev.args[1]]  b == reg[ev.args[2]]
  IN IF a.d.shape # b.d.shape THEN "shape"
     ELSE IF a.d.el # b.d.el THEN "value"
     ELSE IF a.v.kind # b.v.kind THEN "type"
     ELSE IF a.v.dtype # b.v.dtype THEN "dtype"
     ELSE IF a.v.kind = "poly" /\ a.v.names # b.v.names THEN "names"
     ELSE "ok"

\* ------------------------------------------------- C13 pickle, copy, text round trips
TermSet(v) == {<<v.rows[r], v.coefs[r]>> : r \in 1..Len(v.rows)}
JCopy(ev, reg) ==          \* pickle (any protocol), copy.copy, copy.deepcopy, .copy()
  LET o == reg[ev.args[1]].v
  IN IF ev.out # "ret" THEN "raised"
     ELSE LET r == ev.res[1]
          IN IF r.kind # "poly" \/ o.kind # "poly" THEN "type"
             ELSE IF r.shape # o.shape THEN "shape"
             ELSE IF r.dtype # o.dtype THEN "dtype"
             ELSE IF r.names # o.names THEN "names"
             ELSE IF Len(r.rows) # Len(o.rows) \/ RangeOf(r.rows) # RangeOf(o.rows) THEN "rows"
             ELSE IF Size(o.shape) > 0 /\ TermSet(r) # TermSet(o) THEN "value" ELSE "ok"
JSaveLoad(ev, reg, opts) ==      \* savetxt then loadtxt; values are chosen exactly representable in the format
  LET o == reg[ev.args[1]].v  a == reg[ev.args[1]].d
  IN IF ev.out # "ret" THEN "raised"
     ELSE LET r == ev.res[1]
          IN IF r.kind # "poly" THEN "type"
             ELSE IF r.shape # a.shape THEN "shape"
             ELSE IF opts.retain_names /\ r.names # o.names THEN "names"     \* (C15: retain_names decides about unused names)
             ELSE IF ~(RangeOf(r.names) \subseteq RangeOf(o.names)) THEN "names"
             ELSE IF Den(r).el # a.el THEN "value" ELSE "ok"
JLoadPlain(ev, reg) ==     \* a file without the numpoly header loads as a plain array
  LET a == reg[ev.args[1]].d
  IN IF ev.out # "ret" THEN "raised"
     ELSE LET r == ev.res[1]
          IN IF r.kind # "array" THEN "type"
             ELSE IF Size(r.shape) # Size(a.shape) THEN "shape"
             ELSE IF r.vals # [k \in 1..Len(a.el) |-> IF a.el[k] = EZero THEN NZero ELSE a.el[k][MOne]] THEN "value"
             ELSE "ok"

\* ------------------------------------------------------ C16 str / repr / sympy
\* ev.terms: per array element (C order) the printed terms, each
\* [sign |-> 1 | -1, coef |-> Num, factors |-> <<<<name id, exponent>>, ...>>] as lexed from the text
TermMono(t) == MNorm([n \in {t.factors[i][1] : i \in 1..Len(t.factors)} |->
                        FoldLeft(LAMBDA acc, i : acc + (IF t.factors[i][1] = n THEN t.factors[i][2] ELSE 0), 0,
                                 [i \in 1..Len(t.factors) |-> i])])
TermPoly(t) == ETerm(IF t.sign < 0 THEN NNeg(t.coef) ELSE t.coef, TermMono(t))
JText(ev, reg, opts) ==
  LET v == reg[ev.args[1]].v  a == reg[ev.args[1]].d
      names == IF v.kind = "poly" THEN v.names ELSE <<0>>
  IN IF ev.out # "ret" THEN "raised"
     ELSE IF ev.lexerror # "" THEN "value_unreadable"
     ELSE IF Len(ev.terms) # Len(a.el) THEN "shape"
     ELSE IF \E k \in 1..Len(a.el) : ESumSeq([i \in 1..Len(ev.terms[k]) |-> TermPoly(ev.terms[k][i])]) # a.el[k]
          THEN "value"
     ELSE IF \E k \in 1..Len(a.el) : \E i \in 1..(Len(ev.terms[k]) - 1) :
               LET m1 == TermMono(ev.terms[k][i])  m2 == TermMono(ev.terms[k][i + 1])
               IN IF opts.display_inverse
                  THEN ~MLess(m2, m1, names, opts.display_graded, opts.display_reverse)
                  ELSE ~MLess(m1, m2, names, opts.display_graded, opts.display_reverse)
          THEN "value_order"
     ELSE "ok"

\* ------------------------------------------- C11 constants behave like numpy
\* ev.np: numpy's results on the underlying numeric arrays (observed); ev.res: numpoly's on constant polynomials
ConstVals(r) ==       \* the numeric values of a result, whether it came back as polynomial or as array
  IF r.kind = "array" THEN r.vals
  ELSE LET d == Den(r) IN [k \in 1..Len(d.el) |-> IF d.el[k] = EZero THEN NZero ELSE d.el[k][MOne]]
JConst(ev, reg) ==
  IF ev.np_out = "raise" THEN "ok"            \* numpy itself rejects these arguments: outside the quantifier
  ELSE IF ev.out # "ret" THEN "raised"
  ELSE IF Len(ev.res) # Len(ev.np) THEN "arity"
  ELSE First([i \in 1..Len(ev.np) |->
         LET r == ev.res[i]  w == ev.np[i]
             cv == ConstVals(r)
         IN IF ~HasDen(r) THEN "type"
            ELSE IF r.kind = "poly" /\ ~DConst(Den(r)) THEN "value_not_constant"
            ELSE IF r.shape # w.shape THEN "shape"
            ELSE IF cv # w.vals /\ \E k \in 1..Len(w.vals) : ~(cv[k] = w.vals[k] \/ NClose(cv[k], w.vals[k], 40)) THEN "value"
            ELSE IF w.dtype \in {"bool", "int64"} /\ ev.index_result /\ (r.kind # "array" \/ r.dtype # w.dtype) THEN "type"
            ELSE "ok"])
\* numeric division functions given a non-constant polynomial divisor
JNumericDivide(ev, reg) ==
  IF DConst(reg[ev.args[2]].d) THEN "ok" ELSE ExpectRaise(ev, "FeatureNotSupported")

\* ------------------------------------------------- C08 registry sweep: numpy spelling = numpoly spelling
\* ev.res: what numpoly.f(args) returned; ev.np / ev.np_out: what numpy.f(args) (dispatched through the override
\* protocol) returned for the same arguments.  Same type, shape, coefficient dtype, names and polynomial values.
SameObs(r, w) ==
  IF r.kind # w.kind THEN "type"
  ELSE IF r.kind = "poly" THEN
         IF r.shape # w.shape THEN "shape"
         ELSE IF r.dtype # w.dtype THEN "dtype"
         ELSE IF r.names # w.names THEN "names"
         ELSE IF ~DenDefined(r) \/ ~DenDefined(w) THEN "ok"          \* malformed results are C03's to report
         ELSE IF PolyDen(r).el # PolyDen(w).el THEN "value" ELSE "ok"
  ELSE IF r.kind = "array" THEN
         IF r.shape # w.shape THEN "shape"
         ELSE IF r.dtype # w.dtype THEN "dtype"
         ELSE IF r.vals # w.vals THEN "value" ELSE "ok"
  ELSE IF r.kind \in {"text", "opaque"} THEN (IF r.text # w.text THEN "value" ELSE "ok")
  ELSE "ok"
JSpell(ev) ==
  IF ev.np_out = "raise" /\ ev.out = "raise" THEN (IF ev.np[1].exc = ev.res[1].exc THEN "ok" ELSE "raised_differently")
  ELSE IF ev.np_out = "raise" THEN "raised_numpy_only"
  ELSE IF ev.out # "ret" THEN "raised"
  ELSE IF Len(ev.res) # Len(ev.np) THEN "arity"
  ELSE First([i \in 1..Len(ev.np) |-> SameObs(ev.res[i], ev.np[i])])

\* ------------------------------------------------- C08 dispatch: unsupported numpy calls
\* ev.registered: whether numpoly's registries (observed at trace time) map this function / ufunc / method
JUnsupported(ev) ==
  IF ev.registered THEN "ok"
  ELSE IF ev.dispatched = FALSE THEN "machinery_no_dispatch"     \* numpy rejected the synthesised arguments before dispatching
  ELSE ExpectRaise(ev, "FeatureNotSupported")

\* ------------------------------------------ growth: API no listed property names
\* (events carry prop = "GROW"; rejections are reported as notes by every check that runs the catalogue)
\* polynomial_from_roots(roots): the monic polynomial prod (q0 - r) in the default indeterminate
JFromRoots(ev, reg) ==
  LET r == reg[ev.args[1]].d
      x == ETerm(NOne, MVar(0))
      want == EProdSeq([k \in 1..Len(r.el) |-> ESub(x, r.el[k])])
  IN IF Len(r.shape) # 1 THEN "ok" ELSE ExpectDen(ev, "poly", DScalar(want))
\* apply_along_axis(sum / prod, axis, a) is the reduction over that axis
JApplyAlongAxis(ev, reg) ==
  LET a == reg[ev.args[1]].d
      ax == NormAxis(ev.axis, Len(a.shape))
  IN ExpectDen(ev, "poly", IF ev.fn = "sum" THEN DSumAxes(a, {ax}, FALSE) ELSE DProdAxes(a, {ax}, FALSE))
\* result_type of dtype-carrying operands is numpy's promotion
JResultType(ev, reg) ==
  LET a == reg[ev.args[1]].v  b == reg[ev.args[2]].v
  IN IF ev.out # "ret" THEN "raised" ELSE IF ev.dtype_name = Promote(a.dtype, b.dtype) THEN "ok" ELSE "dtype"
\* logical functions look at whether an element is the zero polynomial
IsNonZero(f) == f # EZero
JLogical(ev, reg) ==
  LET a == reg[ev.args[1]].d
  IN IF ev.out # "ret" THEN "raised"
     ELSE LET r == ev.res[1]
              want == CASE ev.fn = "any" -> <<BoolNum(\E k \in 1..Len(a.el) : IsNonZero(a.el[k]))>>
                        [] ev.fn = "all" -> <<BoolNum(\A k \in 1..Len(a.el) : IsNonZero(a.el[k]))>>
                        [] ev.fn = "count_nonzero" -> <<NInt(Cardinality({k \in 1..Len(a.el) : IsNonZero(a.el[k])}))>>
          IN IF r.kind # "array" THEN "type" ELSE IF r.vals # want THEN "value" ELSE "ok"

\* -------------------------------------------------------------- C14 options
OptAct(ev) == ev.act \in {"set_options", "enter", "exit", "exit_exc", "get_mutate", "get_defaults"}
NextOpts(ev, opts, ctx) ==
  CASE ev.act = "set_options" -> SetOptionsOpts(opts, ev.kw, ev.bad)
    [] ev.act = "enter" -> EnterOpts(opts, ev.kw, ev.bad)
    [] ev.act \in {"exit", "exit_exc"} -> ExitOpts(opts, ctx)
    [] OTHER -> opts
NextCtx(ev, opts, ctx) ==
  CASE ev.act = "enter" -> EnterCtx(opts, ctx, ev.kw, ev.bad)
    [] ev.act \in {"exit", "exit_exc"} -> ExitCtx(ctx)
    [] OTHER -> ctx
JOption(ev, opts, ctx) ==
  CASE ev.act \in {"set_options", "enter"} ->
         IF SetOptionsOK(ev.kw, ev.bad) THEN (IF ev.out = "ret" THEN "ok" ELSE "raised")
         ELSE ExpectRaise(ev, "KeyError")
    [] ev.act = "exit" -> IF ev.out = "ret" THEN "ok" ELSE "raised"
    [] ev.act = "exit_exc" -> ExpectRaise(ev, ev.thrown)     \* the exception propagates
    [] ev.act = "get_mutate" -> IF ev.out = "ret" /\ ev.seen = opts THEN "ok" ELSE "copy"
    [] ev.act = "get_defaults" -> IF ev.out = "ret" /\ ev.seen = DefaultOptions THEN "ok" ELSE "defaults"

\* ------------------------------------------------------------------ dispatch
NeedsDen(ev) == ev.act \in {"from_roots", "apply_along_axis", "logical", "numdiv", "text", "copy", "saveload", "loadplain", "polydiv", "same", "copyto", "rebuild", "align", "arith", "unary", "move", "reduce", "call", "deriv", "compare", "extreme", "lead", "tonumpy", "todict", "decompose", "set_dimensions"}
\* C20: where an exponent cannot be represented the only other allowed outcome is an error
BigExponent == 55000
Own(ev, reg, opts, ctx) ==
  CASE ev.act = "new" -> "ok"
    \* (events of the large-exponent driver carry `bigexp`, whichever property owns them: C15 re-runs them under options)
    [] "bigexp" \in DOMAIN ev /\ ev.out = "raise" /\ ev.bigexp >= BigExponent -> "ok"
    \* text files: C20 allows an error whenever an exponent cannot be written to or read from the file
    \* (e.g. exponent 74 is stored as U+0085, which the header pattern treats as white space)
    [] "bigexp" \in DOMAIN ev /\ ev.act = "saveload" /\ ev.out = "raise" -> "ok"
    [] \E i \in 1..Len(ev.args) : ev.args[i] \notin 1..Len(reg) -> "machinery_operand"
    [] (NeedsDen(ev) \/ (ev.act = "dtype" /\ ev.fn \in {"construct", "arith"})) /\ \E i \in 1..Len(ev.args) : reg[ev.args[i]].d = <<>> -> "machinery_operand"
    [] ev.act = "arith" -> JArith(ev, reg)
    [] ev.act = "unary" -> JUnary(ev, reg)
    [] ev.act = "move" -> JMove(ev, reg, opts)
    [] ev.act = "reduce" -> JReduce(ev, reg)
    [] ev.act = "from_roots" -> JFromRoots(ev, reg)
    [] ev.act = "apply_along_axis" -> JApplyAlongAxis(ev, reg)
    [] ev.act = "result_type" -> JResultType(ev, reg)
    [] ev.act = "logical" -> JLogical(ev, reg)
    [] ev.act = "unsupported" -> JUnsupported(ev)
    [] ev.act = "spell" -> JSpell(ev)
    [] ev.act = "constfn" -> JConst(ev, reg)
    [] ev.act = "numdiv" -> JNumericDivide(ev, reg)
    [] ev.act = "text" -> JText(ev, reg, opts)
    [] ev.act = "copy" -> JCopy(ev, reg)
    [] ev.act = "saveload" -> JSaveLoad(ev, reg, opts)
    [] ev.act = "loadplain" -> JLoadPlain(ev, reg)
    [] ev.act = "polydiv" -> JPolyDiv(ev, reg)
    [] ev.act = "same" -> JSame(ev, reg)
    [] ev.act = "dtype" -> JDType(ev, reg)
    [] ev.act = "any" -> "ok"          \* no claim about the result: only the global clauses are evaluated
    [] ev.act = "copyto" -> JCopyTo(ev, reg)
    [] ev.act = "from_attributes" -> JFromAttributes(ev, opts)
    [] ev.act = "rebuild" -> JRebuild(ev, reg, opts)
    [] ev.act = "variable" -> JVariable(ev)
    [] ev.act = "align" -> JAlign(ev, reg, opts)
    [] ev.act = "realign" -> JRealign(ev, reg)
    [] ev.act = "call" -> JCall(ev, reg)
    [] ev.act = "deriv" -> JDeriv(ev, reg)
    [] ev.act = "compare" -> JCompare(ev, reg, opts)
    [] ev.act = "extreme" -> JExtreme(ev, reg, opts)
    [] ev.act = "lead" -> JLead(ev, reg, opts)
    [] ev.act = "tonumpy" -> JToNumpy(ev, reg)
    [] ev.act = "todict" -> JToDict(ev, reg)
    [] ev.act = "decompose" -> JDecompose(ev, reg)
    [] ev.act = "set_dimensions" -> JSetDimensions(ev, reg)
    [] ev.act = "index" -> JIndex(ev, reg)
    [] OptAct(ev) -> JOption(ev, opts, ctx)
    [] OTHER -> "unknown_action"

\* ------------------------------------------------------------ global clauses
WfAll(ev) ==
  IF ev.out # "ret" THEN "ok"
  ELSE First([i \in 1..Len(ev.res) |-> WellFormedClause(ev.res[i])])
PoisonAll(ev) ==
  IF \E i \in 1..Len(ev.res) : ev.res[i].poison THEN "poison" ELSE "ok"
FrameAll(ev, reg) ==
  IF Len(ev.digests) # Len(reg) THEN "register_count"
  ELSE LET bad == {i \in 1..Len(reg) : i \notin RangeOf(ev.targets) /\ ev.digests[i] # reg[i].dg}
       IN IF bad = {} THEN "ok" ELSE "reg" \o ToString(CHOOSE i \in bad : \A j \in bad : i <= j)
OptionsAll(ev, opts, ctx) == IF ev.opts = NextOpts(ev, opts, ctx) THEN "ok" ELSE "mismatch"

Judge(ev, reg, opts, ctx) ==
  LET wf == WfAll(ev)
  IN [wf |-> wf,
      poison |-> PoisonAll(ev),
      own |-> IF wf \in {"wf_names", "wf_width", "wf_duplicate_rows", "wf_coef_count", "wf_coef_shape_dtype"}
              THEN "ok" ELSE Own(ev, reg, opts, ctx),
      frame |-> FrameAll(ev, reg),
      options |-> OptionsAll(ev, opts, ctx),
      \* only defects that make the denotation of the result undefined end the trace
      abort |-> wf \in {"wf_names", "wf_width", "wf_duplicate_rows", "wf_coef_count", "wf_coef_shape_dtype"}]

NextReg(ev, reg) ==
  LET upd == [i \in 1..Len(reg) |-> IF i \in RangeOf(ev.targets)
                                     THEN MkReg(ev.after[CHOOSE x \in 1..Len(ev.targets) : ev.targets[x] = i])
                                     ELSE reg[i]]
  IN IF ev.out = "ret" /\ ev.kept
     THEN upd \o [i \in 1..Len(ev.res) |-> MkReg(ev.res[i])]
     ELSE upd
=============================================================================
