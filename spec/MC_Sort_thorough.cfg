SPECIFICATION Spec
CONSTANTS
  Rows = 3
  Cols = 3
  MaxEntry = 2
  MaxDim = 3
  MaxBound = 3
INVARIANT OrderIsStrictTotal
INVARIANT IndexSetLaws
CHECK_DEADLOCK FALSE
