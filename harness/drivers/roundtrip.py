"""C13 driver: pickle (protocols 0-5), copy / deepcopy / .copy(), savetxt ->
loadtxt through numpoly.savetxt and numpy.savetxt, file objects and paths."""
from __future__ import annotations

import random

import numpy

from .. import gen
from ..project import build_poly
from ..record import Recorder, reset_options

SHAPES = [(), (1,), (3,), (2, 2), (1, 1, 2), (2, 3), (1, 2)]


def one_trace(rng, tid, prop):
    reset_options()
    rec = Recorder(tid, prop)
    for _ in range(rng.randint(2, 4)):
        kind = rng.choice(["int", "float"])
        names = gen.rand_names(rng, 1, 4, pool=(0, 1, 2, 3, 10, 12))
        shape = rng.choice(SHAPES)
        spec = gen.rand_poly_spec(rng, shape=shape, names=names, kind=kind, max_terms=rng.choice([1, 1, 2, 4]),
                                  max_exp=3, min_terms=1, allow_zero=rng.random() < 0.3)
        a = rec.new(build_poly(spec))
        if rng.random() < 0.3:
            # outputs of alignment keep all-zero terms: they must survive too
            other = rec.new(build_poly(gen.rand_poly_spec(rng, shape=shape, names=names, kind=kind, max_terms=2, min_terms=1)))
            al = rec.do("align", [a, other], fn="align_polynomials", prop="C04")
            if al:
                a = al[0]
        if len(shape) >= 2 and rng.random() < 0.4:
            # an array whose axes are permuted in memory (a view, not C-contiguous)
            from ..actions import gather_map
            fn, p = rng.choice([("T", {}), ("transpose_method", {"axes": list(reversed(range(len(shape))))}),
                                ("moveaxis", {"source": 0, "destination": -1})])
            params = {"fn": fn, "p": p, "spelling": "numpy" if fn == "moveaxis" else "numpoly"}
            if fn == "moveaxis":
                params["fn"] = "transpose_method"
                params["p"] = {"axes": list(range(1, len(shape))) + [0]}
                params["spelling"] = "numpoly"
            v = rec.do("move", [a], gather=gather_map(params, [tuple(shape)]), model=[], prop="C09", **params)
            if v:
                a = v[0]
        for _ in range(rng.randint(2, 4)):
            c = rng.random()
            if c < 0.45:
                how = rng.choice(["pickle", "pickle", "copy", "deepcopy", "method"])
                rec.do("copy", [a], keep=False, how=how, protocol=rng.randint(0, 5))
            elif c < 0.9:
                fmt = rng.choice(["default", "%.18e", "%.6f", "%g", "%.3e"]) if kind == "float" else rng.choice(["default", "%d", "%.1f", "%g"])
                rec.do("saveload", [a], keep=False, writer=rng.choice(["numpoly", "numpy"]), fmt=fmt,
                       delimiter=rng.choice(["default", ",", ";", "\\t"]).replace("\\t", "\t"),
                       header=rng.choice(["default", "my data", "two\\nlines"]).replace("\\n", "\n"),
                       comments=rng.choice(["default", "default", "% "]),
                       target=rng.choice(["buffer", "path"]))
            else:
                size = rng.randint(1, 4)
                arr = rec.new(numpy.array([rng.choice(gen.coef_pool(kind)) for _ in range(size)], dtype=gen.dtype_of(kind)))
                rec.do("loadplain", [arr], keep=False)
    return rec.to_json()


def generate(seed, n, prop="C13", start=0, **kw):
    out = []
    for i in range(start, start + n):
        rng = random.Random("roundtrip/%d/%d" % (seed, i))
        out.append(one_trace(rng, "%s-roundtrip-s%d-%05d" % (prop, seed, i), prop, **kw))
    return out
