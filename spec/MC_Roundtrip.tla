---------------------------- MODULE MC_Roundtrip ----------------------------
(***************************************************************************)
(* Bounded model for C13: every operand of a small universe (sorted and    *)
(* unsorted name tuples, q2 / q10, all-zero terms, unused names, 0-d and   *)
(* 1-d / 2-d shapes) through every medium (pickle protocols 0-5, copy,     *)
(* deepcopy, .copy(), text files written by numpoly.savetxt and by         *)
(* numpy.savetxt, to a buffer and to a path) under every setting of the    *)
(* retain options at the time of loading.  The model says what each medium *)
(* carries: pickling and copying carry the representation (names, exponent *)
(* rows, coefficients, all-zero terms included); a text file carries the   *)
(* polynomial and is cleaned under the options in force when it is read.   *)
(* TLC checks that under both readings the polynomial denoted is the one   *)
(* stored, for every option setting; every vector is replayed.             *)
(***************************************************************************)
EXTENDS PolyArray

CONSTANTS Tier

VARIABLES vec
NameTuples == IF Tier = "quick" THEN {<<0>>, <<0, 1>>, <<1, 0>>, <<2, 10>>, <<10, 2>>}
              ELSE {<<0>>, <<1>>, <<0, 1>>, <<1, 0>>, <<0, 2>>, <<2, 10>>, <<10, 2>>, <<0, 1, 2>>, <<2, 0, 1>>}
\* the second layout of width 2 leaves the second name unused; the third has a constant term
RowsFor(w) == IF w = 1 THEN {<<<<1>>>>, <<<<0>>, <<2>>>>}
              ELSE IF w = 2 THEN {<<<<1, 0>>, <<0, 1>>>>, <<<<2, 0>>, <<1, 0>>>>, <<<<0, 0>>, <<1, 1>>>>}
              ELSE {<<<<1, 0, 0>>, <<0, 0, 1>>>>, <<<<0, 1, 1>>>>}
Shapes == IF Tier = "quick" THEN {<<>>, <<2>>, <<2, 2>>} ELSE {<<>>, <<1>>, <<2>>, <<1, 2>>, <<2, 2>>, <<2, 1, 2>>}
ZeroChoices(n) == IF Tier = "quick" THEN {0, 1} ELSE 0..n
Operands == UNION {UNION {{[names |-> nm, rows |-> rw, shape |-> s, zero |-> z] : s \in Shapes, z \in ZeroChoices(Len(rw))} :
                             rw \in RowsFor(Len(nm))} : nm \in NameTuples}
Media == {"pickle0", "pickle1", "pickle2", "pickle3", "pickle4", "pickle5", "copy", "deepcopy", "method",
          "text_numpoly_buffer", "text_numpoly_path", "text_numpy_buffer", "text_numpy_path"}
IsText(m) == m \in {"text_numpoly_buffer", "text_numpoly_path", "text_numpy_buffer", "text_numpy_path"}

Init == vec = [kind |-> "none"]
Next == \/ vec.kind = "none" /\ \E o \in Operands : vec' = [kind |-> "operand", o |-> o]
        \/ vec.kind = "operand" /\ \E m \in Media, rn \in BOOLEAN, rc \in BOOLEAN :
              vec' = [kind |-> "trip", o |-> vec.o, medium |-> m, rn |-> rn, rc |-> rc]
Spec == Init /\ [][Next]_vec

RangeOf(q) == {q[i] : i \in 1..Len(q)}
CoefAt(o, r, k) == IF o.zero = r THEN 0 ELSE (IF (r + k) % 2 = 0 THEN 2 ELSE -1) * r
Triple(o) == [names |-> o.names, rows |-> o.rows,
              coefs |-> [r \in 1..Len(o.rows) |-> [k \in 1..Size(o.shape) |-> NInt(CoefAt(o, r, k))]]]
\* what comes back: the representation itself, or the triple cleaned under the options in force when reading
Loaded(t, size, m, rc, rn) == IF IsText(m) THEN CleanTriple(t.rows, t.coefs, t.names, size, rc, rn) ELSE t
SamePolynomial ==
  vec.kind = "trip" =>
    LET t == Triple(vec.o)
        back == Loaded(t, Size(vec.o.shape), vec.medium, vec.rc, vec.rn)
    IN /\ TripleDen(back, vec.o.shape) = TripleDen(t, vec.o.shape)
       /\ (~IsText(vec.medium) => back = t)
       /\ (vec.rn => back.names = t.names)
       /\ RangeOf(back.names) \subseteq RangeOf(t.names)
=============================================================================
