"""Parallel execution of generation / replay tasks (one fresh interpreter per
worker process, options reset before every trace)."""
from __future__ import annotations

import importlib
import multiprocessing
import os


_POISON = {"tried": False, "on": False}


def install_poison():
    """Install the 0xA5-filling numpy allocator (native/poisonalloc.c) in this process."""
    if not _POISON["tried"]:
        _POISON["tried"] = True
        here = os.path.dirname(os.path.dirname(os.path.abspath(__file__)))
        import sys
        sys.path.insert(0, os.path.join(here, "build"))
        try:
            import poisonalloc
            _POISON["on"] = bool(poisonalloc.install())
        except Exception:  # noqa: BLE001 - without the shim the poison clause is simply never triggered
            _POISON["on"] = False
    return _POISON["on"]


def _run(task):
    os.environ.setdefault("PYTHONHASHSEED", "0")
    install_poison()
    kind = task[0]
    # one trace at a time, so that an exception inside a driver (a broken library returning something the driver's
    # own bookkeeping cannot handle) loses that trace only; lost traces are reported, never silently dropped
    import traceback
    from harness import record
    out = []
    if kind == "driver":
        _, name, seed, start, count, prop, kw = task
        mod = importlib.import_module("harness.drivers." + name)
        for i in range(start, start + count):
            try:
                out.extend(mod.generate(seed, 1, prop=prop, start=i, **kw))
            except record.TraceTooLarge as big:
                record.PRELUDE = None
                out.append(big.recorder.to_json())          # the trace as far as it got, the large event included
            except Exception:  # noqa: BLE001
                out.append({"crashed": traceback.format_exc()[-1500:], "where": "driver %s seed %d trace %d" % (name, seed, i)})
        return out
    if kind == "replay":
        _, fn_name, items, prop, start, kw = task
        from harness import replay
        fn = getattr(replay, fn_name)
        for i, item in enumerate(items):
            try:
                out.append(fn(item, "%s-%s-%06d" % (prop, fn_name, start + i), prop, start + i, **kw))
            except record.TraceTooLarge as big:
                out.append(big.recorder.to_json())
            except Exception:  # noqa: BLE001
                out.append({"crashed": traceback.format_exc()[-1500:], "where": "replay %s item %d" % (fn_name, start + i)})
        return out
    raise ValueError(kind)


def driver_tasks(name, seed, total, prop, kw=None, chunk=None, nproc=16):
    kw = kw or {}
    chunk = chunk or max(1, min(200, (total + nproc - 1) // nproc))
    return [("driver", name, seed, s, min(chunk, total - s), prop, kw) for s in range(0, total, chunk)]


def replay_tasks(fn_name, items, prop, kw=None, chunk=200):
    kw = kw or {}
    return [("replay", fn_name, items[s:s + chunk], prop, s, kw) for s in range(0, len(items), chunk)]


CRASHES = []        # traces lost to exceptions inside drivers during the last run_tasks calls (read by check.py)


def run_tasks(tasks, nproc=16):
    if not tasks:
        return []
    ctx = multiprocessing.get_context("fork")
    with ctx.Pool(processes=min(nproc, len(tasks)), maxtasksperchild=50) as pool:
        out = []
        for traces in pool.imap(_run, tasks):
            for t in traces:
                if "crashed" in t:
                    CRASHES.append(t)
                elif t.get("events"):               # a trace without events has nothing to judge
                    out.append(t)
    return out
