SPECIFICATION Spec
CONSTANTS
  MaxTerms = 2
  Tier = "thorough"
INVARIANT DerivativeLaws
INVARIANT EvaluationLaws
CHECK_DEADLOCK FALSE
