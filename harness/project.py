"""Projection of real numpoly / numpy objects onto the abstract state of the
TLA+ specification (DESIGN section 3).

This module moves values; it never judges them and does no arithmetic beyond
exact re-encoding of numbers.  Everything is observed raw, so that malformed
objects stay visible to the specification instead of being normalised away.
"""
from __future__ import annotations

import hashlib
import re
from fractions import Fraction

import numpy

B = 10000
POISON_BYTE = 0xA5
EXP_CLAMP = 2 ** 30          # exponents at or above this cannot be exponents the library accepts (TLC ints are 32 bit)
NAME_RE = re.compile(r"^q(\d+)$")


# --------------------------------------------------------------------- numbers
def _big(n: int) -> dict:
    n = int(n)
    if n == 0:
        return {"s": 0, "m": []}
    s = 1 if n > 0 else -1
    n = abs(n)
    limbs = []
    while n:
        limbs.append(n % B)
        n //= B
    return {"s": s, "m": limbs}


def _dyadic(x) -> tuple:
    """(n, k) with x == n / 2**k exactly; x is an int or a finite float."""
    if isinstance(x, (bool, numpy.bool_)):
        return int(x), 0
    if isinstance(x, (int, numpy.integer)):
        return int(x), 0
    x = float(x)
    n, d = x.as_integer_ratio()
    return n, d.bit_length() - 1


def num(x) -> dict:
    """Exact encoding of a Python / numpy number as the spec's Num."""
    if isinstance(x, Fraction):
        d = x.denominator
        assert d & (d - 1) == 0, "only dyadic rationals"
        return {"r": _big(x.numerator), "i": _big(0), "k": d.bit_length() - 1}
    if isinstance(x, (complex, numpy.complexfloating)):
        re_, im_ = float(x.real), float(x.imag)
    else:
        re_, im_ = x, 0
    for part in (re_, im_):
        if isinstance(part, (float, numpy.floating)) and not numpy.isfinite(part):
            # non-finite: equal to nothing the specification computes
            tag = -1 if numpy.isnan(part) else (-2 if part > 0 else -3)
            return {"r": _big(0), "i": _big(0), "k": tag}
    (rn, rk), (im, ik) = _dyadic(re_), _dyadic(im_)
    k = max(rk, ik)
    rn <<= k - rk
    im <<= k - ik
    while k > 0 and rn % 2 == 0 and im % 2 == 0:
        rn //= 2
        im //= 2
        k -= 1
    if rn == 0 and im == 0:
        k = 0
    return {"r": _big(rn), "i": _big(im), "k": k}


def unnum(d: dict):
    """Inverse of num (for building inputs from TLC values)."""
    def ub(b):
        v = 0
        for limb in reversed(b["m"]):
            v = v * B + limb
        return v * b["s"]
    r, i, k = ub(d["r"]), ub(d["i"]), d["k"]
    if i:
        return complex(r / 2 ** k, i / 2 ** k)
    if k:
        return r / 2 ** k
    return r


# --------------------------------------------------------------------- helpers
def name_id(name: str) -> int:
    m = NAME_RE.match(name)
    if m:
        return int(m.group(1))
    if name == "q":
        return -1
    # exotic names: stable negative ids (drivers avoid mixing these with q<d>)
    return -2 - (int(hashlib.sha1(name.encode()).hexdigest(), 16) % 1000)


def _raw(arr) -> numpy.ndarray:
    """Plain-ndarray view (never dispatches to numpoly)."""
    return numpy.ndarray.view(arr, numpy.ndarray) if isinstance(arr, numpy.ndarray) else numpy.asarray(arr)


def _flat_nums(arr) -> list:
    arr = numpy.asarray(arr)
    return [num(x) for x in arr.ravel(order="C").tolist()] if arr.dtype.kind != "c" else [
        num(complex(x)) for x in arr.ravel(order="C")]


def _is_poison(arr: numpy.ndarray) -> bool:
    arr = numpy.ascontiguousarray(_raw(arr))
    if arr.size == 0 or arr.dtype.itemsize < 2:
        return False
    raw = numpy.frombuffer(arr.tobytes(), dtype=numpy.uint8).reshape(-1, arr.dtype.itemsize)
    return bool((raw == POISON_BYTE).all(axis=1).any())


def digest(obj) -> str:
    """Digest of everything C17 promises stays unchanged (total: an object that cannot be read has a fixed digest)."""
    try:
        return _digest(obj)
    except Exception:  # noqa: BLE001 - a malformed object must not stop the recording
        return "undigestable"


def _digest(obj) -> str:
    h = hashlib.sha1()
    import numpoly
    if isinstance(obj, numpoly.ndpoly):
        h.update(repr((obj.shape, str(obj.dtype), tuple(obj.names),
                       [str(k) for k in obj.keys.tolist()])).encode())
        h.update(numpy.ascontiguousarray(_raw(obj)).tobytes())
    elif isinstance(obj, numpy.ndarray):
        h.update(repr((obj.shape, str(obj.dtype))).encode())
        if obj.dtype == object:
            h.update(repr(obj.tolist()).encode())
        else:
            h.update(numpy.ascontiguousarray(obj).tobytes())
    else:
        h.update(repr((type(obj).__name__, obj)).encode())
    return h.hexdigest()[:16]


def carrier(obj) -> str:
    import numpoly
    if isinstance(obj, numpoly.ndpoly):
        return "poly"
    if isinstance(obj, numpy.ndarray):
        return "ndarray"
    if isinstance(obj, numpy.generic):
        return "npscalar"
    if isinstance(obj, tuple):
        return "tuple"
    if isinstance(obj, list):
        return "list"
    return "py" + type(obj).__name__


# ------------------------------------------------------------------ projection
def project_poly(p) -> dict:
    names = [name_id(n) for n in p.names]
    exps = p.exponents
    rows = [[min(int(e), EXP_CLAMP) for e in row] for row in exps.tolist()]
    keys = [[min(ord(c), EXP_CLAMP) for c in str(k)] for k in p.keys.tolist()]
    raw = _raw(p)
    vnames = raw.dtype.names or ()
    vkeys = [[ord(c) for c in str(k)] for k in vnames]
    coefs, cshapes, cdtypes = [], [], []
    poison = False
    for c in p.coefficients:
        c = numpy.asarray(c)
        coefs.append(_flat_nums(c))
        cshapes.append([int(s) for s in c.shape])
        cdtypes.append(str(c.dtype))
        poison = poison or _is_poison(c)
    return {
        "kind": "poly",
        "shape": [int(s) for s in p.shape],
        "dtype": str(p.dtype),
        "names": names,
        "snames": [str(n) for n in p.names],
        "rows": rows,
        "keys": keys,
        "vkeys": vkeys,
        "coefs": coefs,
        "cshapes": cshapes,
        "cdtypes": cdtypes,
        "alloc": int(getattr(p, "allocation", 0)),
        "poison": poison,
        "carrier": "poly",
        "digest": digest(p),
    }


def project_array(a) -> dict:
    arr = numpy.asarray(a)
    if arr.dtype == object:
        return {"kind": "opaque", "pytype": type(a).__name__, "text": repr(a)[:200],
                "carrier": carrier(a), "digest": digest(a), "poison": False}
    if arr.dtype.kind in "USV":
        return {"kind": "opaque", "pytype": type(a).__name__, "text": repr(a)[:200],
                "carrier": carrier(a), "digest": digest(a), "poison": False}
    return {
        "kind": "array",
        "shape": [int(s) for s in arr.shape],
        "dtype": str(arr.dtype),
        "vals": _flat_nums(arr),
        "pytype": type(a).__name__,
        "carrier": carrier(a),
        "poison": _is_poison(arr) if isinstance(a, numpy.ndarray) else False,
        "digest": digest(a),
    }


def project_exception(exc: BaseException) -> dict:
    return {"kind": "raise", "exc": type(exc).__name__,
            "mro": [c.__name__ for c in type(exc).__mro__],
            "msg": str(exc)[:200], "poison": False, "digest": "", "carrier": "raise"}


def project(v) -> dict:
    """Total: an object the projection cannot read (a malformed result of a broken library) is logged as opaque,
    which no judgment of the specification accepts where a polynomial or array is due."""
    try:
        return _project(v)
    except Exception as exc:  # noqa: BLE001
        return {"kind": "opaque", "pytype": type(v).__name__, "text": ("unprojectable: %r" % (exc,))[:200],
                "carrier": "malformed", "digest": "undigestable", "poison": False}


def _project(v) -> dict:
    import numpoly
    if isinstance(v, numpoly.ndpoly):
        return project_poly(v)
    if isinstance(v, BaseException):
        return project_exception(v)
    if isinstance(v, (bool, int, float, complex, numpy.generic, numpy.ndarray)):
        return project_array(v)
    if isinstance(v, (list, tuple)) and v and not any(isinstance(x, numpoly.ndpoly) for x in _walk(v)):
        try:
            return project_array(v)
        except Exception:  # ragged
            pass
    if v is None:
        return {"kind": "none", "poison": False, "digest": digest(v), "carrier": "none"}
    if isinstance(v, str):
        return {"kind": "text", "text": v, "cp": [ord(c) for c in v], "poison": False,
                "digest": digest(v), "carrier": "str"}
    return {"kind": "opaque", "pytype": type(v).__name__, "text": repr(v)[:200],
            "carrier": carrier(v), "digest": digest(v), "poison": False}


def _walk(v):
    for x in v:
        if isinstance(x, (list, tuple)):
            yield from _walk(x)
        else:
            yield x


# ------------------------------------------------- building inputs from values
def build_poly(spec: dict):
    """Build a real ndpoly from an abstract description
    {shape, names:[ids], rows, coefs:[[python numbers]], dtype} without cleaning."""
    import numpoly
    names = tuple("q%d" % n for n in spec["names"])
    shape = tuple(spec["shape"])
    dtype = numpy.dtype(spec.get("dtype", "int64"))
    coefs = [numpy.asarray(c, dtype=dtype).reshape(shape) for c in spec["coefs"]]
    return numpoly.ndpoly.from_attributes(
        exponents=spec["rows"], coefficients=coefs, names=names, dtype=dtype,
        retain_coefficients=True, retain_names=True)
