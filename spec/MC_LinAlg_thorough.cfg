SPECIFICATION Spec
CONSTANTS
  Tier = "thorough"
INVARIANT DetLaws
INVARIANT MatMulLaws
INVARIANT VectorLaws
INVARIANT DiffLaws
CHECK_DEADLOCK FALSE
