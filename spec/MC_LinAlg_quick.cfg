SPECIFICATION Spec
CONSTANTS
  Tier = "quick"
INVARIANT DetLaws
INVARIANT MatMulLaws
INVARIANT VectorLaws
INVARIANT DiffLaws
CHECK_DEADLOCK FALSE
