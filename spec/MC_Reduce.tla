----------------------------- MODULE MC_Reduce -----------------------------
(***************************************************************************)
(* Bounded model for C10: every (function, shape, axis choice, keepdims)   *)
(* with axes given as None, single (also negative) or ordered tuples of    *)
(* distinct axes in every order.  TLC checks fold laws of the              *)
(* specification on an array of distinct symbolic elements; the vectors    *)
(* are replayed on sum / prod / mean / cumsum through all spellings.       *)
(***************************************************************************)
EXTENDS PolyArray

CONSTANTS Tier
Shapes == IF Tier = "quick" THEN {<<2>>, <<1, 2>>, <<2, 2>>, <<2, 1, 2>>, <<1, 2, 2>>, <<2, 2, 1>>}
          ELSE {<<2>>, <<3>>, <<1, 2>>, <<2, 2>>, <<2, 3>>, <<2, 1, 2>>, <<1, 2, 2>>, <<2, 2, 1>>, <<2, 2, 2>>, <<1, 3, 2>>}

VARIABLES vec
\* ordered tuples of distinct axes of length 1..n, also written with negative numbers
AxisTuples(n) ==
  LET pos == UNION {{s \in [1..k -> 0..(n - 1)] : \A i, j \in 1..k : i # j => s[i] # s[j]} : k \in 1..n}
  IN pos \cup {[i \in 1..Len(s) |-> s[i] - n] : s \in {t \in pos : Len(t) <= 2}}
AxisChoices(s) == {[none |-> TRUE, axes |-> <<>>]} \cup {[none |-> FALSE, axes |-> a] : a \in AxisTuples(Len(s))}
Fns == {"sum", "prod", "mean", "cumsum"}

Init == vec = [kind |-> "none"]
Next == \/ vec.kind = "none" /\ \E s \in Shapes : vec' = [kind |-> "shape", shape |-> s]
        \/ vec.kind = "shape" /\ \E f \in Fns, c \in AxisChoices(vec.shape), kd \in BOOLEAN :
              /\ (f = "cumsum" => (~kd /\ Len(c.axes) <= 1))
              /\ vec' = [kind |-> "reduce", fn |-> f, shape |-> vec.shape, none |-> c.none, axes |-> c.axes, keepdims |-> kd]
Spec == Init /\ [][Next]_vec

\* an array whose element k is the indeterminate q_k: every element distinct
Symbolic(s) == [shape |-> s, el |-> [k \in 1..Size(s) |-> ETerm(NOne, MVar(k))]]
AxSet(v) == IF v.none THEN 0..(Len(v.shape) - 1) ELSE {NormAxis(v.axes[i], Len(v.shape)) : i \in 1..Len(v.axes)}
\* reducing over a set of axes = reducing over them one after the other, in the order given
RECURSIVE SumInOrder(_, _)
SumInOrder(d, axes) ==
  IF axes = <<>> THEN d
  ELSE SumInOrder(DSumAxes(d, {Head(axes)}, TRUE), Tail(axes))
OrderIrrelevant ==
  (vec.kind = "reduce" /\ vec.fn = "sum" /\ ~vec.none) =>
     LET d == Symbolic(vec.shape)
         norm == [i \in 1..Len(vec.axes) |-> NormAxis(vec.axes[i], Len(vec.shape))]
     IN SumInOrder(d, norm).el = DSumAxes(d, AxSet(vec), TRUE).el
SumOfEverything ==
  (vec.kind = "reduce" /\ vec.fn = "sum" /\ vec.none) =>
     LET d == Symbolic(vec.shape) IN DSumAxes(d, AxSet(vec), FALSE).el = <<ESumSeq(d.el)>>
CumSumEndsInSum ==
  (vec.kind = "reduce" /\ vec.fn = "cumsum" /\ vec.none) =>
     LET d == Symbolic(vec.shape) c == DCumSumAxis(DRavel(d), 0)
     IN c.el[Len(c.el)] = ESumSeq(d.el)
ShapesAgree ==
  vec.kind = "reduce" /\ vec.fn \in {"sum", "prod"} =>
     LET d == Symbolic(vec.shape)
     IN DSumAxes(d, AxSet(vec), vec.keepdims).shape = DProdAxes(d, AxSet(vec), vec.keepdims).shape
=============================================================================
