"""C11 driver: every mirrored function on constant polynomials against numpy on
the underlying numeric arrays (values, shape, and the type of boolean / index
results); numeric division functions with a non-constant divisor must raise."""
from __future__ import annotations

import random

import numpy

from .. import gen
from ..project import build_poly
from ..record import Recorder, reset_options

SHAPES = [(), (1,), (3,), (4,), (2, 2), (2, 3), (1, 3), (2, 1, 2), (2, 2, 2)]
UNARY = ["absolute", "negative", "positive", "square", "ceil", "floor", "rint", "isfinite", "around", "round",
         "ones_like", "zeros_like", "nonzero", "count_nonzero", "atleast_1d", "atleast_2d", "atleast_3d", "transpose"]
BINARY = ["add", "subtract", "multiply", "floor_divide", "divide", "remainder", "divmod", "maximum", "minimum",
          "less", "less_equal", "greater", "greater_equal", "equal", "not_equal", "logical_and", "logical_or",
          "isclose", "allclose", "power", "outer", "inner"]
REDUCE = ["sum", "prod", "mean", "cumsum", "amax", "amin", "max", "min", "argmax", "argmin", "any", "all", "count_nonzero"]
METHODS = {"sum", "prod", "mean", "cumsum", "amax", "amin", "max", "min", "any", "all", "around", "round", "transpose"}
INDEX_RESULT = {"argmax", "argmin", "nonzero", "count_nonzero", "less", "less_equal", "greater", "greater_equal", "equal",
                "not_equal", "logical_and", "logical_or", "isclose", "allclose", "isfinite", "any", "all"}


ACCUMULATING = {"sum", "prod", "mean", "cumsum", "inner", "outer", "matmul", "allclose", "isclose"}


def const_poly(rng, shape, kind, positive=False, nonzero=False, exact=False):
    """`exact`: short binary fractions only, for functions that accumulate (the order of additions is numpy's business:
    with 0.1, 0.2, ... two correct summation orders differ in the last bits, and near cancellation not even relatively)."""
    size = int(numpy.prod(shape, dtype=int))
    # floats include values that are not short binary fractions (0.1, 0.3, 0.9): the comparison with numpy is exact
    pool = {"int": [-2, -1, 0, 1, 2, 3, 3, 1],
            "float": [-2.0, -0.5, 0.0, 0.5, 1.5, 2.0, 2.5, 0.5, 0.1, 0.2, 0.3, 0.9, 1.0, -0.1, 1.1, 0.7]}[kind]
    if exact and kind == "float":
        pool = [-2.0, -0.5, 0.0, 0.5, 1.5, 2.0, 2.5, 0.25, 1.0, -1.5, 0.75]
    if positive:
        pool = [v for v in pool if v >= 0]
    if nonzero:
        pool = [v for v in pool if v != 0]
    vals = [rng.choice(pool) for _ in range(size)]
    return build_poly({"shape": list(shape), "names": [0], "rows": [[0]], "coefs": [vals], "dtype": gen.dtype_of(kind)})


SWEEP = {"int": [-3, -2, -1, 0, 1, 2, 3, 5],
         "float": [-2.5, -1.0, -0.1, 0.0, 0.1, 0.2, 0.3, 0.5, 0.7, 0.9, 1.0, 1.1, 1.5, 2.0, 2.5, 3.0]}


def pair_sweep(rng, rec):
    """One binary function on ALL ordered pairs of a value set in a single call (a x b as 1-d arrays)."""
    kind = rng.choice(["int", "float"])
    fn = rng.choice([f for f in BINARY if f not in ("outer", "inner", "allclose")])
    vals = SWEEP[kind]
    if fn == "power":
        kind, vals = "int", [0, 1, 2, 3]
    left = [v for v in vals for _ in vals]
    right = [w for _ in vals for w in vals]
    if fn in ("floor_divide", "divide", "remainder", "divmod"):
        keep = [i for i, w in enumerate(right) if w != 0]
        left, right = [left[i] for i in keep], [right[i] for i in keep]
    mk = lambda v: build_poly({"shape": [len(v)], "names": [0], "rows": [[0]], "coefs": [v], "dtype": gen.dtype_of(kind)})  # noqa: E731
    a, b = rec.new(mk(left)), rec.new(mk(right))
    rec.do("constfn", [a, b], keep=False, fn=fn, p={}, spelling=rng.choice(["numpoly", "numpy"]),
           index_result=fn in INDEX_RESULT, np=[], np_out="ret")


def one_trace(rng, tid, prop):
    reset_options()
    rec = Recorder(tid, prop)
    pair_sweep(rng, rec)
    for _ in range(rng.randint(4, 8)):
        kind = rng.choice(["int", "float"])
        shape = rng.choice(SHAPES)
        nd = len(shape)
        c = rng.random()
        sp = rng.choice(["numpoly", "numpy"])
        if c < 0.08:
            # isclose / allclose with explicit tolerances on operands that differ by small amounts
            fn = rng.choice(["isclose", "allclose"])
            size = int(numpy.prod(shape, dtype=int))
            base = [rng.choice([-2.0, -0.5, 0.0, 1.0, 1.5, 100.0]) for _ in range(size)]
            delta = [rng.choice([0.0, 0.0, 1e-9, 0.05, -0.05, 0.5]) for _ in range(size)]
            mk = lambda v: build_poly({"shape": list(shape), "names": [0], "rows": [[0]], "coefs": [v], "dtype": "float64"})  # noqa: E731
            a = rec.new(mk(base))
            b = rec.new(mk([x + d for x, d in zip(base, delta)]))
            p = {}
            if rng.random() < 0.7:
                p["rtol"] = rng.choice([0.0, 1e-5, 0.01])
            if rng.random() < 0.7:
                p["atol"] = rng.choice([0.0, 1e-8, 0.1])
            if rng.random() < 0.3:
                p["equal_nan"] = True
            rec.do("constfn", [a, b], keep=False, fn=fn, p=p, spelling=sp, index_result=True, np=[], np_out="ret")
        elif c < 0.3:
            fn = rng.choice(UNARY)
            a = rec.new(const_poly(rng, shape, kind))
            p = {}
            if fn in ("around", "round"):
                p = {"decimals": rng.choice([0, 1, -1])}
            if fn in ("ones_like", "zeros_like") and rng.random() < 0.4:
                p = rng.choice([{"dtype": "float64"}, {"shape": [2, 2]}, {"dtype": "int8", "shape": [3]}])
            if fn in METHODS and rng.random() < 0.35:
                sp = "method"
            rec.do("constfn", [a], keep=False, fn=fn, p=p, spelling=sp, index_result=fn in INDEX_RESULT, np=[], np_out="ret")
        elif c < 0.6:
            fn = rng.choice(BINARY)
            a = rec.new(const_poly(rng, shape, kind, positive=fn == "power", exact=fn in ACCUMULATING))
            s2 = gen.broadcast_partner(rng, shape) if fn not in ("outer", "inner") else ((rng.randint(1, 3),) if fn == "outer" else shape)
            if fn in ("outer", "inner") and nd != 1:
                continue
            b = rec.new(const_poly(rng, s2, "int" if fn == "power" else kind, positive=fn == "power",
                                   nonzero=fn in ("floor_divide", "divide", "remainder", "divmod"), exact=fn in ACCUMULATING))
            rec.do("constfn", [a, b], keep=False, fn=fn, p={}, spelling=sp, index_result=fn in INDEX_RESULT, np=[], np_out="ret")
        elif c < 0.9:
            fn = rng.choice(REDUCE)
            if nd == 0:
                continue
            a = rec.new(const_poly(rng, shape, kind, exact=fn in ACCUMULATING))
            p = {}
            r = rng.random()
            if fn in ("argmax", "argmin", "cumsum"):
                if r < 0.5:
                    p["axis"] = rng.randrange(-nd, nd)
            elif r < 0.4:
                p["axis"] = rng.randrange(-nd, nd)
            elif r < 0.55 and nd >= 2 and fn not in ("any", "all") or (r < 0.55 and nd >= 2):
                p["axis"] = rng.sample(range(nd), 2)
            if fn not in ("argmax", "argmin", "cumsum") and rng.random() < 0.3:
                p["keepdims"] = True
            if fn in ("sum", "prod", "mean", "cumsum") and rng.random() < 0.2:
                # an accumulator dtype that does not round the small values used here (C11 claims values, not the dtype)
                p["dtype"] = rng.choice(["float64", "complex128"] + (["int64"] if kind == "int" and fn != "mean" else []))
            if fn in METHODS and rng.random() < 0.35:
                sp = "method"
            rec.do("constfn", [a], keep=False, fn=fn, p=p, spelling=sp, index_result=fn in INDEX_RESULT, np=[], np_out="ret")
        else:
            # numeric division by a non-constant polynomial must be refused
            a = rec.new(const_poly(rng, shape, kind))
            d = rec.new(build_poly(gen.rand_poly_spec(rng, shape=gen.broadcast_partner(rng, shape), names=(0, 1), kind=kind,
                                                      max_terms=2, max_exp=2, min_terms=1)))
            rec.do("numdiv", [a, d], keep=False, fn=rng.choice(["true_divide", "divide", "floor_divide", "remainder", "divmod"]), spelling=sp)
    return rec.to_json()


def generate(seed, n, prop="C11", start=0, **kw):
    out = []
    for i in range(start, start + n):
        rng = random.Random("const/%d/%d" % (seed, i))
        out.append(one_trace(rng, "%s-const-s%d-%05d" % (prop, seed, i), prop, **kw))
    return out
