SPECIFICATION Spec
CONSTANTS
  Tier = "thorough"
INVARIANT BasicIndexTotal
INVARIANT TransposeIsPermutation
INVARIANT ConcatIsPartition
CHECK_DEADLOCK FALSE
