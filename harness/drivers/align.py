"""C04 driver: the four alignment functions on tuples of 1-4 polynomial-likes."""
from __future__ import annotations

import random

from .. import gen
from ..project import build_poly
from ..record import Recorder, reset_options

FNS = ("align_polynomials", "align_shape", "align_indeterminants", "align_exponents")


def one_trace(rng, tid, prop):
    reset_options()
    rec = Recorder(tid, prop)
    if rng.random() < 0.3:
        # alignment must give one common layout whatever the retain options say (they force the flags on internally)
        rec.do("set_options", [], keep=False, kw={"retain_names": rng.random() < 0.4, "retain_coefficients": rng.random() < 0.5},
               bad=[], prop="C14")
    base = gen.rand_shape(rng)
    ops = []
    for i in range(rng.randint(1, 4)):
        shape = base if i == 0 else gen.broadcast_partner(rng, base)
        if rng.random() < 0.75 or i == 0:
            kind = rng.choice(["int", "int", "float", "complex"])
            spec = gen.rand_poly_spec(rng, shape=shape, names=gen.rand_names(rng, 1, 3), kind=kind, max_terms=4)
            ops.append(gen.maybe_view(rec, rng, rec.new(build_poly(spec)), 0.15))
        else:
            ops.append(rec.new(gen.rand_numeric(rng, shape, rng.choice(["int", "float"]))))
    for _ in range(rng.randint(2, 4)):
        fn = rng.choice(FNS)
        k = rng.randint(1, len(ops))
        args = rng.sample(ops, k)
        if fn in ("align_indeterminants", "align_exponents") and rng.random() < 0.5:
            pass
        new = rec.do("align", args, fn=fn)
        if new and len(new) == len(args):
            rec.do("realign", new, keep=False, fn=fn)        # aligning aligned arguments changes nothing
            if rng.random() < 0.5:
                rec.do("realign", new, keep=False, fn="align_polynomials" if fn == "align_polynomials" else fn)
    reset_options()
    return rec.to_json()


def pair_trace(rng, tid, prop, index):
    """All four functions on one (shape, shape) pair of the systematic list, arrays of pairwise distinct elements."""
    from .shape import distinct_poly_spec
    reset_options()
    rec = Recorder(tid, prop)
    pairs = gen.shape_pairs()
    s1, s2 = pairs[index % len(pairs)]
    a = rec.new(build_poly(distinct_poly_spec(rng, s1, names=(0, 1), kind="int")))
    b = rec.new(build_poly(distinct_poly_spec(rng, s2, names=rng.choice([(0, 1), (1, 2), (10,)]), kind="int", tag=3)))
    for fn in FNS:
        new = rec.do("align", [a, b], fn=fn)
        if new and len(new) == 2:
            rec.do("realign", new, keep=False, fn=fn)
    return rec.to_json()


def generate(seed, n, prop="C04", start=0, **kw):
    out = []
    for i in range(start, start + n):
        rng = random.Random("align/%d/%d" % (seed, i))
        if i % 2 == 0:
            out.append(pair_trace(rng, "%s-align-s%d-%05d" % (prop, seed, i), prop, i // 2 + seed))
        else:
            out.append(one_trace(rng, "%s-align-s%d-%05d" % (prop, seed, i), prop, **kw))
    return out
