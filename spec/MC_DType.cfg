SPECIFICATION Spec
INVARIANT PromoteIsJoin
INVARIANT CastIdempotent
INVARIANT CastToJoinFaithful
CHECK_DEADLOCK FALSE
