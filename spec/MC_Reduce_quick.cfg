SPECIFICATION Spec
CONSTANTS
  Tier = "quick"
INVARIANT OrderIrrelevant
INVARIANT SumOfEverything
INVARIANT CumSumEndsInSum
INVARIANT ShapesAgree
CHECK_DEADLOCK FALSE
