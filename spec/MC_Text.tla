------------------------------ MODULE MC_Text ------------------------------
(***************************************************************************)
(* Bounded model for C16: all ordered pairs of a universe of small         *)
(* polynomials in q0, q1 (printed as a two-element array) under every      *)
(* display order and both retain_names settings.  TLC checks that the      *)
(* display order totally orders the monomials of every element, so the     *)
(* printed term sequence is unique; the vectors are replayed on str / repr *)
(* and the lexed text is evaluated by Trace.tla.                           *)
(***************************************************************************)
EXTENDS Poly, TLC

CONSTANTS MaxTerms

VARIABLES vec
Dims == <<0, 1>>
Rows == {<<0, 0>>, <<1, 0>>, <<0, 1>>, <<1, 1>>, <<2, 0>>, <<0, 2>>, <<1, 2>>, <<2, 1>>}
Reps == {T \in SUBSET Rows : Cardinality(T) <= MaxTerms /\ T # {}}
RowMonoD(r) == MNorm([n \in {0, 1} |-> r[n + 1]])

Init == vec = [kind |-> "none"]
Next == \/ vec.kind = "none" /\ \E a \in Reps : vec' = [kind |-> "half", a |-> a]
        \/ vec.kind = "half" /\ \E b \in Reps, g \in BOOLEAN, r \in BOOLEAN, rn \in BOOLEAN :
              vec' = [kind |-> "text", a |-> vec.a, b |-> b, graded |-> g, reverse |-> r, retain_names |-> rn]
Spec == Init /\ [][Next]_vec

DisplayOrderTotal ==
  vec.kind = "text" =>
    \A S \in {vec.a, vec.b} : \A x, y \in S :
       x = y \/ MLess(RowMonoD(x), RowMonoD(y), Dims, vec.graded, vec.reverse)
             \/ MLess(RowMonoD(y), RowMonoD(x), Dims, vec.graded, vec.reverse)
=============================================================================
