"""C20 driver: monomials with large exponents through construction, the raw
view and back, multiplication, powers, differentiation, evaluation, pickling
and text files.  Every event carries `bigexp`, the largest exponent involved
(an input-side quantity): at or above 55000 an error is an allowed outcome."""
from __future__ import annotations

import random

from ..project import num
from ..record import Recorder, reset_options


GIVEN_RNG = None      # set per trace: the generator deciding whether constructor arguments are the caller's own arrays


def mono(rec, exps, names, coef, shape=(), **kw):
    """c * prod q_i**e_i through polynomial_from_attributes (itself judged)."""
    size = 1
    for s in shape:
        size *= s
    given = []
    if GIVEN_RNG is not None and GIVEN_RNG.random() < 0.4:
        # the caller's own exponent table, in an integer dtype that just holds the exponents
        import numpy
        fits = [d for d in ("uint8", "uint16", "int16", "int32", "uint32", "int64", "uint64") if max(exps) <= numpy.iinfo(d).max]
        given = [rec.new(numpy.array([list(exps)], dtype=GIVEN_RNG.choice(fits[:3] + fits)))]
        given += [rec.new(numpy.full(tuple(shape), coef, dtype="int64"))]
    return rec.do("from_attributes", given, rows=[list(exps)], coefs=[[num(coef)] * size], shape=list(shape),
                  names=list(names), rc=("none" if GIVEN_RNG is None else GIVEN_RNG.choice(["none", "true"])), rn="true",
                  via="function", dtype="int64", bigexp=max(exps), **kw)


def poly2(rec, rows, names, coefs, bigexp):
    return rec.do("from_attributes", [], rows=[list(r) for r in rows], coefs=[[num(c)] for c in coefs], shape=[],
                  names=list(names), rc="none", rn="true", via="function", dtype="int64", bigexp=bigexp)


def one_trace(rng, tid, prop, sweep=None):
    global GIVEN_RNG
    GIVEN_RNG = rng
    reset_options()
    rec = Recorder(tid, prop)
    mode = rng.choice(["sweep", "pairs", "pairs", "tuples", "tuples"])
    if rng.random() < 0.15:
        # exponents nothing can represent: an error is the only right answer
        for _ in range(3):
            e = rng.choice([-1, -5, 2 ** 32 + 5, 2 ** 32, 2 ** 32 - 1, 2 ** 32 - 59, 2 ** 33 + 7, 2 ** 63, 2 ** 64 + 1])
            row = [e] if rng.random() < 0.6 else [1, e]
            clamp = [-1 if x < 0 else min(x, 2 ** 30) for x in row]
            rec.do("from_attributes", [], keep=False, rows=[clamp], raw_rows=[[str(x) for x in row]], coefs=[[num(4)]], shape=[],
                   names=list(range(len(row))), rc=rng.choice(["none", "true"]), rn="true",
                   via=rng.choice(["function", "classmethod"]), dtype="int64", bigexp=2 ** 30)
    if mode == "sweep":
        for _ in range(6):
            e = sweep if sweep is not None else rng.choice([rng.randint(0, 300), rng.randint(0, 54999), rng.randint(54000, 58000)])
            sweep = None
            r = mono(rec, [e], [0], rng.choice([1, -2, 3]))
            if r:
                rec.do("rebuild", r, keep=False, via=rng.choice(["raw", "attributes", "todict", "raw_polynomial"]), bigexp=e)
                rec.do("copy", r, keep=False, how="pickle", protocol=rng.randint(0, 5), bigexp=e)
    elif mode == "pairs":
        for _ in range(5):
            a = rng.randint(0, 600)
            b = rng.randint(0, 600 - a)
            x = mono(rec, [a], [0], rng.choice([1, 2, -3]))
            y = mono(rec, [b], [0], rng.choice([1, -1, 5]))
            if x and y:
                rec.do("arith", [x[0], y[0]], keep=False, op="mul", spelling=rng.choice(["operator", "numpy", "numpoly"]), bigexp=a + b)
    else:
        nn = rng.randint(1, 3)
        names = sorted(rng.sample([0, 1, 2, 10], nn))
        hi = rng.choice([200, 5000, 50000, 100000])
        rows = []
        for _ in range(rng.randint(1, 3)):
            row = tuple(rng.choice([0, rng.randint(0, hi), rng.randint(0, 70)]) for _ in range(nn))
            if row not in rows:
                rows.append(row)
        lexi = nn >= 2 and rng.random() < 0.25
        if lexi:
            # seed C20g: the largest exponent sits in a later name of a row that is not the lexicographically last one
            e = rng.choice([rng.randint(69, 196), rng.randint(197, 400), 256])
            rows = [tuple([rng.randint(1, 5)] + [0] * (nn - 1)), tuple([0] * (nn - 1) + [e])]
            if rng.random() < 0.5:
                rows.append(tuple([0] * nn))
        big = max(max(r) for r in rows)
        p = poly2(rec, rows, names, [rng.choice([1, -1, 2, 3]) for _ in rows], big)
        if not p:
            return rec.to_json()
        rows2 = [tuple(rng.choice([0, rng.randint(0, hi)]) for _ in range(nn))]
        if lexi:
            rows2 = [tuple([0] * (nn - 1) + [rng.randint(0, 8)])]
        q = poly2(rec, rows2, names, [rng.choice([1, -2])], max(rows2[0]))
        for step in range(rng.randint(3, 6)):
            c = rng.random()
            if (c < 0.25 or (lexi and step == 0)) and q:
                rec.do("arith", [p[0], q[0]], keep=False, op="mul", spelling="operator",
                       bigexp=max(a + b for r in rows for a, b in zip(r, rows2[0])))
            elif c < 0.35:
                rec.do("unary", [p[0]], keep=False, op="square", spelling=rng.choice(["numpy", "numpoly", "operator"]), bigexp=2 * big)
            elif c < 0.5:
                j = rng.randrange(nn)
                rec.do("deriv", [p[0]], keep=False, fn="derivative", designators=[{"as": "index", "v": j}],
                       vars=[{"kind": "index", "i": j, "id": -1}], bigexp=big)
            elif c < 0.65:
                vals = [rec.new(rng.choice([0, 1, -1])) for _ in range(nn)]
                layout = {"pos": list(range(2, 2 + nn)), "kw": []}
                bind = [{"name": names[i], "arg": 2 + i, "how": "pos"} for i in range(nn)]
                rec.do("call", [p[0]] + vals, keep=False, layout=layout, bind=bind, spelling="call", bigexp=big)
            elif c < 0.8:
                rec.do("copy", [p[0]], keep=False, how=rng.choice(["pickle", "copy", "deepcopy", "method"]), protocol=rng.randint(0, 5), bigexp=big)
            elif c < 0.9:
                rec.do("rebuild", [p[0]], keep=False, via=rng.choice(["raw", "attributes", "todict"]), bigexp=big)
            else:
                rec.do("saveload", [p[0]], keep=False, writer=rng.choice(["numpoly", "numpy"]), fmt="%d", delimiter="default",
                       header="default", comments="default", target="buffer", bigexp=big, text=True)
    return rec.to_json()


def generate(seed, n, prop="C20", start=0, **kw):
    out = []
    for i in range(start, start + n):
        rng = random.Random("keys/%d/%d" % (seed, i))
        out.append(one_trace(rng, "%s-keys-s%d-%05d" % (prop, seed, i), prop, **kw))
    return out
