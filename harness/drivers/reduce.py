"""C10 driver: reductions and linear algebra on polynomial arrays, every
axis / axis-tuple / keepdims / n / prepend / append choice numpy accepts."""
from __future__ import annotations

import itertools
import random

import numpy

from .. import gen
from ..actions import reduce_fields
from ..project import build_poly
from ..record import Recorder, reset_options
from .shape import distinct_poly_spec

SHAPES = [(1,), (2,), (3,), (1, 2), (2, 1), (2, 2), (2, 3), (3, 2), (1, 1), (3, 3), (2, 1, 2), (1, 2, 2),
          (2, 2, 1), (2, 2, 2), (1, 3, 2), (2, 3, 1)]


def small_poly(rng, shape, names, kind="int"):
    spec = gen.rand_poly_spec(rng, shape=shape, names=names, kind=kind, max_terms=3, max_exp=2, min_terms=1)
    return build_poly(spec)


def do(rec, fn, args, p, spelling):
    f = reduce_fields(fn, p)
    return rec.do("reduce", args, fn=fn, p=p, spelling=spelling, **f)


def one_trace(rng, tid, prop):
    reset_options()
    rec = Recorder(tid, prop)
    kind = rng.choice(["int", "int", "float"])
    names = gen.rand_names(rng, 1, 2, pool=(0, 1, 2))
    for _ in range(rng.randint(3, 6)):
        fam = rng.choice(["sum", "sum", "prod", "cumsum", "mean", "diff", "ediff1d", "inner", "outer", "matmul", "matmul", "det"])
        if fam in ("sum", "prod", "mean"):
            shape = rng.choice(SHAPES if fam != "prod" else [s for s in SHAPES if int(numpy.prod(s)) <= 6])
            a = gen.maybe_view(rec, rng, rec.new(small_poly(rng, shape, names, kind)), 0.2)
            nd = len(shape)
            c = rng.random()
            if c < 0.25:
                ax = "none"
            elif c < 0.7 or nd < 2:
                ax = rng.randrange(-nd, nd)
            else:
                ax = rng.sample(range(nd), rng.randint(1, nd))
                if rng.random() < 0.3:
                    ax = [x - nd for x in ax]
            p = {"axis": ax, "keepdims": rng.random() < 0.4}
            sps = ["numpoly", "numpy", "method"] + (["reduce"] if fam in ("sum", "prod") else [])
            sp = rng.choice(sps)
            if sp == "reduce" and rng.random() < 0.3:
                p["axis"] = "omitted"           # numpy.add.reduce(a): along the first axis
            do(rec, fam, [a], p, sp)
        elif fam == "cumsum":
            shape = rng.choice(SHAPES)
            a = rec.new(small_poly(rng, shape, names, kind))
            nd = len(shape)
            ax = "none" if rng.random() < 0.3 else rng.randrange(-nd, nd)
            sp = rng.choice(["numpoly", "numpy", "method"] + ([] if ax == "none" else ["accumulate"]))
            if sp == "accumulate" and rng.random() < 0.3:
                ax = "omitted"
            do(rec, "cumsum", [a], {"axis": ax}, sp)
        elif fam == "diff":
            shape = rng.choice(SHAPES)
            a = rec.new(small_poly(rng, shape, names, kind))
            nd = len(shape)
            ax = rng.randrange(-nd, nd)
            args = [a]
            p = {"axis": ax, "n": rng.choice([0, 1, 1, 2, 3])}
            for key in ("has_pre", "has_app"):
                if rng.random() < 0.3:
                    ekind = kind if rng.random() < 0.6 else rng.choice(["int", "float"])    # operands of another dtype are promoted
                    if rng.random() < 0.5:
                        extra = small_poly(rng, (), names, ekind) if rng.random() < 0.5 else gen.rand_numeric(rng, (), ekind)
                    else:
                        s2 = list(shape)
                        s2[ax] = rng.choice([1, 2])
                        extra = small_poly(rng, tuple(s2), names, ekind)
                    args.append(rec.new(extra))
                    p[key] = True
            do(rec, "diff", args, p, rng.choice(["numpoly", "numpy"]))
        elif fam == "ediff1d":
            shape = rng.choice(SHAPES)
            a = rec.new(small_poly(rng, shape, names, kind))
            args = [a]
            p = {}
            for key in ("has_pre", "has_app"):
                if rng.random() < 0.35:
                    s2 = rng.choice([(), (1,), (2,)])
                    ekind = kind if rng.random() < 0.6 else rng.choice(["int", "float"])
                    extra = small_poly(rng, s2, names, ekind) if rng.random() < 0.6 else gen.rand_numeric(rng, s2, ekind)
                    args.append(rec.new(extra))
                    p[key] = True
            do(rec, "ediff1d", args, p, rng.choice(["numpoly", "numpy"]))
        elif fam in ("inner", "outer"):
            n = rng.randint(1, 3)
            a = rec.new(small_poly(rng, (n,), names, kind))
            m = n if fam == "inner" else rng.randint(1, 3)
            other = small_poly(rng, (m,), gen.rand_names(rng, 1, 2, pool=(0, 1, 2)), kind) if rng.random() < 0.7 \
                else gen.rand_numeric(rng, (m,), kind)
            b = rec.new(other)
            do(rec, fam, [a, b], {}, rng.choice(["numpoly", "numpy"]))
        elif fam == "matmul":
            n, k, m = rng.randint(1, 3), rng.randint(1, 3), rng.randint(1, 3)
            form = rng.choice(["mm", "vm", "mv", "vv", "bmm", "bmbm", "mbm"])
            sa, sb = {"mm": ((n, k), (k, m)), "vm": ((k,), (k, m)), "mv": ((n, k), (k,)), "vv": ((k,), (k,)),
                      "bmm": ((2, n, k), (k, m)), "bmbm": ((2, n, k), (2, k, m)), "mbm": ((n, k), (2, k, m))}[form]
            if form.startswith("b") or form == "mbm":
                sa = tuple(min(x, 2) for x in sa)
                sb = tuple(min(x, 2) for x in sb)
                if sa[-1] != sb[-2 if len(sb) > 1 else 0]:
                    kk = min(sa[-1], sb[-2])
                    sa = sa[:-1] + (kk,)
                    sb = sb[:-2] + (kk, sb[-1])
            a = rec.new(small_poly(rng, sa, names, kind))
            other = small_poly(rng, sb, names, kind) if rng.random() < 0.7 else gen.rand_numeric(rng, sb, kind)
            b = rec.new(other)
            do(rec, "matmul", [a, b], {}, rng.choice(["numpoly", "numpy", "operator"]))
        elif fam == "det":
            n = rng.choice([1, 2, 2, 3, 4])
            shape = (n, n) if rng.random() < 0.7 or n == 4 else (2, n, n)
            if n == 3 and len(shape) == 3:
                shape = (n, n)
            spec = gen.rand_poly_spec(rng, shape=shape, names=names, kind=kind, max_terms=2, max_exp=1, min_terms=1)
            a = rec.new(build_poly(spec))
            do(rec, "det", [a], {}, "numpoly")
    return rec.to_json()


def generate(seed, n, prop="C10", start=0, **kw):
    out = []
    for i in range(start, start + n):
        rng = random.Random("reduce/%d/%d" % (seed, i))
        out.append(one_trace(rng, "%s-reduce-s%d-%05d" % (prop, seed, i), prop, **kw))
    return out
