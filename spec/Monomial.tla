------------------------------ MODULE Monomial ------------------------------
(***************************************************************************)
(* Exponent tuples as numpoly's index utilities see them (glexsort,        *)
(* glexindex, bindex, cross_truncate, monomial) and the storage-key codec. *)
(* Tuples are sequences of naturals, one entry per dimension.              *)
(***************************************************************************)
EXTENDS Integers, Sequences, FiniteSets, SequencesExt, Functions, TLC

TSum(e) == FoldLeft(LAMBDA a, b : a + b, 0, e)
TProd(e) == FoldLeft(LAMBDA a, b : a * b, 1, e)
\* plain: the LAST dimension is most significant (numpy.lexsort); reverse: the FIRST
TLexLess(a, b, reverse) ==
  \E j \in 1..Len(a) :
     /\ a[j] < b[j]
     /\ \A i \in 1..Len(a) : (IF reverse THEN i < j ELSE i > j) => a[i] = b[i]
TLess(a, b, graded, reverse) ==
  IF graded /\ TSum(a) # TSum(b) THEN TSum(a) < TSum(b) ELSE TLexLess(a, b, reverse)

\* glexsort: perm (0-based indices into the columns) sorts the columns
IsPermutation(p, n) == Len(p) = n /\ {p[i] : i \in 1..n} = 0..(n - 1)
SortsColumns(p, cols, graded, reverse) ==
  /\ IsPermutation(p, Len(cols))
  /\ \A i \in 1..(Len(p) - 1) : ~TLess(cols[p[i + 1] + 1], cols[p[i] + 1], graded, reverse)
StrictlySorted(rows, graded, reverse) ==
  \A i \in 1..(Len(rows) - 1) : TLess(rows[i], rows[i + 1], graded, reverse)

\* cross truncation: norm is "0", "1", "2" or "inf"; bounds may be negative
CrossCore(e, b, P, norm) ==
  CASE norm = "0" -> Cardinality({j \in P : e[j] > 0}) <= 1 /\ \A j \in P : e[j] <= b[j]
    [] norm = "inf" -> \A j \in P : e[j] <= b[j]
    [] norm = "1" ->
         LET pb == TProd([j \in 1..Len(b) |-> IF j \in P THEN b[j] ELSE 1])
         IN TSum([j \in 1..Len(b) |-> IF j \in P THEN e[j] * (pb \div b[j]) ELSE 0]) <= pb
    [] norm = "2" ->
         LET pb == TProd([j \in 1..Len(b) |-> IF j \in P THEN b[j] * b[j] ELSE 1])
         IN TSum([j \in 1..Len(b) |-> IF j \in P THEN e[j] * e[j] * (pb \div (b[j] * b[j])) ELSE 0]) <= pb
InCross(e, b, norm) ==
  IF \E j \in 1..Len(b) : b[j] < 0 THEN FALSE
  ELSE LET Z == {j \in 1..Len(b) : b[j] = 0}
           P == (1..Len(b)) \ Z
       IN /\ \A j \in Z : e[j] = 0
          /\ (P = {} \/ CrossCore(e, b, P, norm))
NormDecidable(norm) == norm \in {"0", "1", "2", "inf"}

\* glexindex: the exponent tuples between start and stop
SeqMax(s) == FoldLeft(LAMBDA a, b : IF a > b THEN a ELSE b, s[1], s)
Clip0(s) == [j \in 1..Len(s) |-> IF s[j] < 0 THEN 0 ELSE s[j]]
GlexIndexSet(start, stop, qlow, qup) ==
  LET d == Len(stop)
      bound == SeqMax(stop)
      st == Clip0(start)
  IN IF bound <= 0 THEN {}
     ELSE IF d = 1 THEN {<<x>> : x \in {y \in 0..(bound - 1) : st[1] <= y}}
     ELSE {e \in [1..d -> 0..(bound - 1)] :
              /\ InCross(e, [j \in 1..d |-> stop[j] - 1], qup)
              /\ ~InCross(e, [j \in 1..d |-> st[j] - 1], qlow)}

\* ------------------------------------------------------- storage-key codec
KeyOffsetM == 59
EncodeExp(e) == e + KeyOffsetM
DecodeCp(c) == c - KeyOffsetM
\* code points that cannot stand in a numpy field name / a str: ':' and the surrogates
BadCodePoint(c) == c = 58 \/ (c >= 55296 /\ c <= 57343) \/ c > 1114111
\* code points a text file cannot carry inside the whitespace-separated header of savetxt / loadtxt:
\* Unicode white space and line separators.  A key holding one of them may be refused by loadtxt (C20
\* allows the error) but must never be read back as another key.
WhiteSpaceCp == {133, 160, 5760, 8232, 8233, 8239, 8287, 12288} \cup (8192..8202)
\* where the UTF-8 length of the code point changes (the byte-oriented key formatter of multiply)
Utf8Boundaries == {127, 128, 2047, 2048, 65535, 65536}
SpecialExponents == {DecodeCp(c) : c \in WhiteSpaceCp \cup Utf8Boundaries}
=============================================================================
