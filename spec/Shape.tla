------------------------------- MODULE Shape -------------------------------
(***************************************************************************)
(* numpy shapes, C-order layout, broadcasting, and "gather maps".          *)
(*                                                                         *)
(* A gather map describes a function that only moves elements around:      *)
(*   [shape |-> result shape,                                              *)
(*    src   |-> for every result position (C order, 1-based) a pair        *)
(*              <<operand number, flat position in that operand>>,         *)
(*              or <<0, 0>> for "filled with zero"]                        *)
(* Flat positions are 1-based in C order; multi-indices are 0-based.       *)
(***************************************************************************)
EXTENDS Integers, Sequences, FiniteSets, SequencesExt, Functions

SProd(s) == FoldLeft(LAMBDA a, b : a * b, 1, s)
SSum(s) == FoldLeft(LAMBDA a, b : a + b, 0, s)
Size(s) == SProd(s)
\* k: 0-based flat index
Unravel(k, s) == [i \in 1..Len(s) |-> (k \div SProd(SubSeq(s, i + 1, Len(s)))) % s[i]]
Ravel(idx, s) == SSum([i \in 1..Len(s) |-> idx[i] * SProd(SubSeq(s, i + 1, Len(s)))])
SMax(a, b) == IF a > b THEN a ELSE b

\* ------------------------------------------------------------ broadcasting
\* extent of axis j (1-based, counted in the padded rank n) of shape s
PadExt(s, n, j) == IF j <= n - Len(s) THEN 1 ELSE s[j - (n - Len(s))]
BroadcastOK2(a, b) ==
  LET n == SMax(Len(a), Len(b))
  IN \A j \in 1..n : PadExt(a, n, j) = PadExt(b, n, j) \/ PadExt(a, n, j) = 1 \/ PadExt(b, n, j) = 1
BShape2(a, b) ==
  LET n == SMax(Len(a), Len(b))
  IN [j \in 1..n |-> IF PadExt(a, n, j) = 1 THEN PadExt(b, n, j) ELSE PadExt(a, n, j)]
RECURSIVE BroadcastOK(_)
RECURSIVE BShape(_)
BShape(ss) == IF Len(ss) = 0 THEN <<>> ELSE IF Len(ss) = 1 THEN ss[1]
              ELSE BShape2(ss[1], BShape(Tail(ss)))
BroadcastOK(ss) == IF Len(ss) <= 1 THEN TRUE
                   ELSE BroadcastOK(Tail(ss)) /\ BroadcastOK2(ss[1], BShape(Tail(ss)))
\* can shape a be broadcast TO shape t (one-directional)?
BroadcastsTo(a, t) ==
  /\ Len(a) <= Len(t)
  /\ \A j \in 1..Len(t) : PadExt(a, Len(t), j) = t[j] \/ PadExt(a, Len(t), j) = 1
\* 1-based flat position in an operand of shape s feeding 1-based result position k of shape t
BSrc(k, t, s) ==
  LET mi == Unravel(k - 1, t)
      off == Len(t) - Len(s)
  IN 1 + Ravel([j \in 1..Len(s) |-> IF s[j] = 1 THEN 0 ELSE mi[j + off]], s)

\* --------------------------------------------------------- reductions
NormAxis(ax, n) == IF ax < 0 THEN ax + n ELSE ax          \* 0-based
\* result shape after reducing the 0-based axes in set A
ReduceShape(s, A, keepdims) ==
  IF keepdims THEN [j \in 1..Len(s) |-> IF (j - 1) \in A THEN 1 ELSE s[j]]
  ELSE LET kept == SelectSeq([j \in 1..Len(s) |-> j], LAMBDA j : (j - 1) \notin A)
       IN [i \in 1..Len(kept) |-> s[kept[i]]]
\* the source flat positions (1-based, ascending) folded into result position k
ReduceSrc(k, s, A, keepdims) ==
  LET t == ReduceShape(s, A, keepdims)
      mi == Unravel(k - 1, t)
      kept == SelectSeq([j \in 1..Len(s) |-> j], LAMBDA j : (j - 1) \notin A)
      Fixed(j) == IF keepdims THEN mi[j]
                  ELSE mi[CHOOSE i \in 1..Len(kept) : kept[i] = j]
  IN {p \in 1..Size(s) :
        LET si == Unravel(p - 1, s)
        IN \A j \in 1..Len(s) : (j - 1) \in A \/ si[j] = Fixed(j)}

\* --------------------------------------------------- core gather maps
GIdentity(s) == [shape |-> s, src |-> [k \in 1..Size(s) |-> <<1, k>>]]
GReshape(s, t) == [shape |-> t, src |-> [k \in 1..Size(t) |-> <<1, k>>]]
\* perm[i] (1-based) = source axis feeding result axis i
GTranspose(s, perm) ==
  LET t == [i \in 1..Len(s) |-> s[perm[i]]]
  IN [shape |-> t, src |-> [k \in 1..Size(t) |->
        LET mi == Unravel(k - 1, t)
        IN <<1, 1 + Ravel([j \in 1..Len(s) |-> mi[CHOOSE i \in 1..Len(s) : perm[i] = j]], s)>>]]
GBroadcastTo(s, t) == [shape |-> t, src |-> [k \in 1..Size(t) |-> <<1, BSrc(k, t, s)>>]]
\* concatenate a sequence of operand shapes along 0-based axis ax
RECURSIVE OffsetsFrom(_, _, _)
OffsetsFrom(ss, ax, acc) == IF ss = <<>> THEN <<>>
   ELSE <<acc>> \o OffsetsFrom(Tail(ss), ax, acc + Head(ss)[ax + 1])
GConcat(ss, ax) ==
  LET offs == OffsetsFrom(ss, ax, 0)
      total == SSum([i \in 1..Len(ss) |-> ss[i][ax + 1]])
      t == [j \in 1..Len(ss[1]) |-> IF j = ax + 1 THEN total ELSE ss[1][j]]
  IN [shape |-> t, src |-> [k \in 1..Size(t) |->
        LET mi == Unravel(k - 1, t)
            o == CHOOSE i \in 1..Len(ss) : offs[i] <= mi[ax + 1] /\ mi[ax + 1] < offs[i] + ss[i][ax + 1]
        IN <<o, 1 + Ravel([j \in 1..Len(t) |-> IF j = ax + 1 THEN mi[j] - offs[o] ELSE mi[j]], ss[o])>>]]
\* python slice normalisation on an axis of extent n: <<first, step, count>>
SlNorm(v, n, lo, hi) == IF v < 0 THEN (IF v + n < lo THEN lo ELSE v + n)
                        ELSE (IF v > hi THEN hi ELSE v)
SliceIdx(start, stop, step, n) ==          \* start/stop: <<>> or <<v>>; step # 0
  IF step > 0
  THEN LET a == IF start = <<>> THEN 0 ELSE SlNorm(start[1], n, 0, n)
           b == IF stop = <<>> THEN n ELSE SlNorm(stop[1], n, 0, n)
           c == IF b > a THEN (b - a + step - 1) \div step ELSE 0
       IN <<a, step, c>>
  ELSE LET a == IF start = <<>> THEN n - 1 ELSE SlNorm(start[1], n, -1, n - 1)
           b == IF stop = <<>> THEN -1 ELSE SlNorm(stop[1], n, -1, n - 1)
           c == IF a > b THEN (a - b + (0 - step) - 1) \div (0 - step) ELSE 0
       IN <<a, step, c>>
\* basic indexing; items (ellipsis already expanded):
\*   [t |-> "int", i |-> Int] | [t |-> "slice", a, b, st] | [t |-> "new"]
RECURSIVE IdxPlan(_, _, _)
IdxPlan(items, s, ax) ==
  IF items = <<>>
  THEN [i \in 1..(Len(s) - ax + 1) |-> [kind |-> "full", ax |-> ax + i - 1, n |-> s[ax + i - 1]]]
  ELSE LET it == Head(items)
       IN IF it.t = "new" THEN <<[kind |-> "new"]>> \o IdxPlan(Tail(items), s, ax)
          ELSE IF it.t = "int"
          THEN <<[kind |-> "int", ax |-> ax, i |-> IF it.i < 0 THEN it.i + s[ax] ELSE it.i]>>
                 \o IdxPlan(Tail(items), s, ax + 1)
          ELSE <<[kind |-> "slice", ax |-> ax, sl |-> SliceIdx(it.a, it.b, it.st, s[ax])]>>
                 \o IdxPlan(Tail(items), s, ax + 1)
GIndex(s, items) ==
  LET plan == IdxPlan(items, s, 1)
      outAxes == SelectSeq(plan, LAMBDA p : p.kind # "int")
      t == [i \in 1..Len(outAxes) |->
              CASE outAxes[i].kind = "new" -> 1
                [] outAxes[i].kind = "full" -> outAxes[i].n
                [] outAxes[i].kind = "slice" -> outAxes[i].sl[3]]
      srcIdx(mi) == [j \in 1..Len(s) |->
           LET pi == CHOOSE q \in 1..Len(plan) : plan[q].kind # "new" /\ plan[q].ax = j
               p == plan[pi]
               o == Cardinality({q \in 1..pi : plan[q].kind # "int"})
           IN CASE p.kind = "int" -> p.i
                [] p.kind = "full" -> mi[o]
                [] p.kind = "slice" -> p.sl[1] + p.sl[2] * mi[o]]
  IN [shape |-> t, src |-> [k \in 1..Size(t) |-> <<1, 1 + Ravel(srcIdx(Unravel(k - 1, t)), s)>>]]

\* A gather map is well-defined with respect to operand shapes ss
GatherOK(g, ss) ==
  /\ Len(g.src) = Size(g.shape)
  /\ \A k \in 1..Len(g.src) :
        \/ g.src[k] = <<0, 0>>
        \/ (g.src[k][1] \in 1..Len(ss) /\ g.src[k][2] \in 1..Size(ss[g.src[k][1]]))
=============================================================================
