----------------------------- MODULE PolyArray -----------------------------
(***************************************************************************)
(* Polynomial arrays as numpoly represents them (raw observation records   *)
(* produced by the projection, see harness/project.py) and what they       *)
(* denote.                                                                 *)
(*                                                                         *)
(* Observation of an ndpoly:                                               *)
(*   [kind |-> "poly", shape, dtype, names (numeric suffixes),             *)
(*    rows (exponent rows), keys / vkeys (code points of the storage keys  *)
(*    as the object reports them / as the raw structured view names them), *)
(*    coefs (per row, C-order list of Num), cshapes, cdtypes, poison, ...] *)
(* Observation of a number / numeric array:                                *)
(*   [kind |-> "array", shape, dtype, vals, ...]                           *)
(*                                                                         *)
(* Denotation: [shape |-> Seq(Nat), el |-> Seq(element polynomial)]        *)
(***************************************************************************)
EXTENDS Poly, Shape, TLC

KeyOffset == 59
ExpClamp == 1073741824     \* the projection clamps exponents >= 2^30: no real exponent is that large
ForbiddenCodePoint == 58

RowMono(names, row) ==
  LET idx == {j \in 1..Len(names) : row[j] > 0}
  IN [n \in {names[j] : j \in idx} |-> row[CHOOSE j \in idx : names[j] = n]]

Distinct(s) == \A i, j \in 1..Len(s) : i # j => s[i] # s[j]

\* ------------------------------------------------------------ well-formedness
\* returns "ok" or the name of the first violated sub-clause
WellFormedClause(v) ==
  IF v.kind = "opaque" /\ v.carrier = "malformed" THEN "wf_unreadable"     \* an object whose attributes cannot even be read
  ELSE IF v.kind # "poly" THEN "ok"
  ELSE IF Len(v.names) < 1 \/ ~Distinct(v.names) THEN "wf_names"
  ELSE IF \E r \in 1..Len(v.rows) : Len(v.rows[r]) # Len(v.names) THEN "wf_width"
  ELSE IF \E r \in 1..Len(v.rows), j \in 1..Len(v.names) : v.rows[r][j] >= ExpClamp THEN "wf_exponent_out_of_range"
  ELSE IF ~Distinct(v.rows) THEN "wf_duplicate_rows"
  ELSE IF Size(v.shape) > 0 /\ Len(v.coefs) # Len(v.rows) THEN "wf_coef_count"
  ELSE IF Size(v.shape) > 0 /\ \E r \in 1..Len(v.rows) :
             v.cshapes[r] # v.shape \/ v.cdtypes[r] # v.dtype \/ Len(v.coefs[r]) # Size(v.shape)
       THEN "wf_coef_shape_dtype"
  ELSE IF Len(v.keys) # Len(v.rows) \/ \E r \in 1..Len(v.rows) :
             v.keys[r] # [j \in 1..Len(v.names) |-> v.rows[r][j] + KeyOffset]
       THEN "wf_keys"
  ELSE IF Len(v.vkeys) < Len(v.rows) \/ \E r \in 1..Len(v.rows) : v.vkeys[r] # v.keys[r]
       THEN "wf_raw_view"
  ELSE "ok"
WellFormed(v) == WellFormedClause(v) = "ok"

\* ---------------------------------------------------------------- denotation
PolyDen(v) ==
  LET n == Size(v.shape)
      nr == Len(v.rows)
      monos == [r \in 1..nr |-> RowMono(v.names, v.rows[r])]
  IN [shape |-> v.shape,
      el |-> [k \in 1..n |->
                LET nz == {r \in 1..nr : ~NIsZero(v.coefs[r][k])}     \* rows are distinct (WellFormed)
                IN [m \in {monos[r] : r \in nz} |-> v.coefs[CHOOSE r \in nz : monos[r] = m][k]]]]
ArrayDen(v) == [shape |-> v.shape, el |-> [k \in 1..Size(v.shape) |-> EConst(v.vals[k])]]
Den(v) == IF v.kind = "poly" THEN PolyDen(v) ELSE ArrayDen(v)

DConst(d) == \A k \in 1..Len(d.el) : EIsConst(d.el[k])
DNames(d) == UNION {ENames(d.el[k]) : k \in 1..Len(d.el)}
DZeros(s) == [shape |-> s, el |-> [k \in 1..Size(s) |-> EZero]]
DScalar(f) == [shape |-> <<>>, el |-> <<f>>]

\* ------------------------------------------------------ element-wise lifting
Lift1(Op(_), a) == [shape |-> a.shape, el |-> [k \in 1..Len(a.el) |-> Op(a.el[k])]]
Lift2(Op(_, _), a, b) ==
  LET t == BShape2(a.shape, b.shape)
  IN [shape |-> t,
      el |-> [k \in 1..Size(t) |-> Op(a.el[BSrc(k, t, a.shape)], b.el[BSrc(k, t, b.shape)])]]
DBroadcast(a, t) == [shape |-> t, el |-> [k \in 1..Size(t) |-> a.el[BSrc(k, t, a.shape)]]]
\* apply a gather map to a sequence of operand denotations
DGather(g, ds) ==
  [shape |-> g.shape,
   el |-> [k \in 1..Len(g.src) |->
             IF g.src[k][1] = 0 THEN EZero ELSE ds[g.src[k][1]].el[g.src[k][2]]]]

DAdd(a, b) == Lift2(EAdd, a, b)
DSub(a, b) == Lift2(ESub, a, b)
DMul(a, b) == Lift2(EMul, a, b)
DNeg(a) == Lift1(ENeg, a)
\* power: exponent array holds non-negative integer constants
ExpOf(f) == IF f = EZero THEN 0 ELSE BToInt(f[MOne].r)
IsNatConst(f) == f = EZero \/ (EIsConst(f) /\ f[MOne].k = 0 /\ f[MOne].i.s = 0
                                 /\ f[MOne].r.s = 1 /\ BIsSmall(f[MOne].r))
DPow(a, b) == Lift2(LAMBDA f, e : EPow(f, ExpOf(e)), a, b)
DArith(op, a, b) == CASE op = "add" -> DAdd(a, b) [] op = "sub" -> DSub(a, b)
                      [] op = "mul" -> DMul(a, b) [] op = "pow" -> DPow(a, b)

\* ------------------------------------------------------------------ reductions
DSumAxes(a, A, keepdims) ==
  LET t == ReduceShape(a.shape, A, keepdims)
  IN [shape |-> t,
      el |-> [k \in 1..Size(t) |->
                 FoldSet(LAMBDA p, acc : EAdd(acc, a.el[p]), EZero, ReduceSrc(k, a.shape, A, keepdims))]]
DProdAxes(a, A, keepdims) ==
  LET t == ReduceShape(a.shape, A, keepdims)
  IN [shape |-> t,
      el |-> [k \in 1..Size(t) |->
                 FoldSet(LAMBDA p, acc : EMul(acc, a.el[p]), EOne, ReduceSrc(k, a.shape, A, keepdims))]]
AllAxes(s) == 0..(Len(s) - 1)
\* cumulative sum along 0-based axis ax (shape preserved)
DCumSumAxis(a, ax) ==
  [shape |-> a.shape,
   el |-> [k \in 1..Len(a.el) |->
      LET mi == Unravel(k - 1, a.shape)
      IN FoldSet(LAMBDA j, acc : EAdd(acc,
                    a.el[1 + Ravel([x \in 1..Len(mi) |-> IF x = ax + 1 THEN j ELSE mi[x]], a.shape)]),
                 EZero, 0..mi[ax + 1])]]
DRavel(a) == [shape |-> <<Len(a.el)>>, el |-> a.el]

\* --------------------------------------------- differences and linear algebra
SetAx(mi, ax, j) == [x \in 1..Len(mi) |-> IF x = ax + 1 THEN j ELSE mi[x]]
DAt(a, mi) == a.el[1 + Ravel(mi, a.shape)]
DDiff1(a, ax) ==
  LET t == [j \in 1..Len(a.shape) |-> IF j = ax + 1 THEN (IF a.shape[j] > 0 THEN a.shape[j] - 1 ELSE 0)
                                         ELSE a.shape[j]]
  IN [shape |-> t,
      el |-> [k \in 1..Size(t) |->
                LET mi == Unravel(k - 1, t)
                IN ESub(DAt(a, SetAx(mi, ax, mi[ax + 1] + 1)), DAt(a, mi))]]
RECURSIVE DDiffN(_, _, _)
DDiffN(a, n, ax) == IF n = 0 THEN a ELSE DDiffN(DDiff1(a, ax), n - 1, ax)
DConcatAxis(ds, ax) == DGather(GConcat([i \in 1..Len(ds) |-> ds[i].shape], ax), ds)
\* scalars given as prepend/append are expanded to extent 1 along the axis
ExpandAlong(p, a, ax) ==
  IF p.shape = <<>> THEN DBroadcast(p, [j \in 1..Len(a.shape) |-> IF j = ax + 1 THEN 1 ELSE a.shape[j]]) ELSE p
DDiff(a, n, ax, pre, app) ==       \* pre, app: <<>> or <<denotation>>
  LET parts == (IF pre = <<>> THEN <<>> ELSE <<ExpandAlong(pre[1], a, ax)>>) \o <<a>>
               \o (IF app = <<>> THEN <<>> ELSE <<ExpandAlong(app[1], a, ax)>>)
  IN IF n = 0 THEN a      \* numpy returns the input as-is, prepend / append are not even looked at
     ELSE DDiffN(IF Len(parts) = 1 THEN a ELSE DConcatAxis(parts, ax), n, ax)
DEDiff1d(a, begin, end) ==         \* begin, end: <<>> or <<denotation>>
  LET d == DDiff1(DRavel(a), 0)
      parts == (IF begin = <<>> THEN <<>> ELSE <<DRavel(begin[1])>>) \o <<d>>
               \o (IF end = <<>> THEN <<>> ELSE <<DRavel(end[1])>>)
  IN IF Len(parts) = 1 THEN d ELSE DConcatAxis(parts, 0)
\* vectors
DInnerVec(a, b) == DScalar(FoldLeft(LAMBDA acc, k : EAdd(acc, EMul(a.el[k], b.el[k])), EZero,
                                     [k \in 1..Len(a.el) |-> k]))
DOuter(a, b) ==
  LET na == Len(a.el) nb == Len(b.el)
  IN [shape |-> <<na, nb>>,
      el |-> [k \in 1..(na * nb) |-> EMul(a.el[1 + ((k - 1) \div nb)], b.el[1 + ((k - 1) % nb)])]]
\* matmul with numpy's rules: 1-d operands are promoted and the added axis removed again,
\* leading (batch) axes broadcast
MatMulOK(sa, sb) ==
  /\ Len(sa) >= 1 /\ Len(sb) >= 1
  /\ sa[Len(sa)] = (IF Len(sb) = 1 THEN sb[1] ELSE sb[Len(sb) - 1])
  /\ BroadcastOK2(IF Len(sa) <= 2 THEN <<>> ELSE SubSeq(sa, 1, Len(sa) - 2),
                  IF Len(sb) <= 2 THEN <<>> ELSE SubSeq(sb, 1, Len(sb) - 2))
DMatMul(a, b) ==
  LET sa == IF Len(a.shape) = 1 THEN <<1, a.shape[1]>> ELSE a.shape
      sb == IF Len(b.shape) = 1 THEN <<b.shape[1], 1>> ELSE b.shape
      ba == SubSeq(sa, 1, Len(sa) - 2)  bb == SubSeq(sb, 1, Len(sb) - 2)
      batch == BShape2(ba, bb)
      n == sa[Len(sa) - 1]  kk == sa[Len(sa)]  m == sb[Len(sb)]
      full == batch \o <<n, m>>
      nb == Len(batch)
      PadIdx(bi, s) ==      \* batch multi-index bi (rank nb) -> multi-index into a batch shape s
        [j \in 1..Len(s) |-> IF s[j] = 1 THEN 0 ELSE bi[j + nb - Len(s)]]
      elem(k) ==
        LET mi == Unravel(k - 1, full)
            bi == SubSeq(mi, 1, nb)
            i == mi[nb + 1]  j == mi[nb + 2]
        IN FoldLeft(LAMBDA acc, x : EAdd(acc,
               EMul(a.el[1 + Ravel(PadIdx(bi, ba) \o <<i, x - 1>>, sa)],
                    b.el[1 + Ravel(PadIdx(bi, bb) \o <<x - 1, j>>, sb)])), EZero, [x \in 1..kk |-> x])
      els == [k \in 1..Size(full) |-> elem(k)]
      outShape == batch \o (IF Len(a.shape) = 1 THEN <<>> ELSE <<n>>) \o (IF Len(b.shape) = 1 THEN <<>> ELSE <<m>>)
  IN [shape |-> outShape, el |-> els]
\* determinant by Leibniz expansion over the last two axes
PermSign(p, n) == IF Cardinality({pr \in (1..n) \X (1..n) : pr[1] < pr[2] /\ p[pr[1]] > p[pr[2]]}) % 2 = 0 THEN 1 ELSE -1
DDet(a) ==
  LET n == a.shape[Len(a.shape)]
      batch == SubSeq(a.shape, 1, Len(a.shape) - 2)
      perms == Permutations(1..n)
      elem(k) ==
        LET bi == Unravel(k - 1, batch)
        IN FoldSet(LAMBDA p, acc : EAdd(acc, EScale(NInt(PermSign(p, n)),
                 FoldLeft(LAMBDA pr, i : EMul(pr, a.el[1 + Ravel(bi \o <<i - 1, p[i] - 1>>, a.shape)]),
                          EOne, [i \in 1..n |-> i]))), EZero, perms)
  IN [shape |-> batch, el |-> [k \in 1..Size(batch) |-> elem(k)]]
\* closeness of polynomials, for the places where IEEE rounding is inherent (mean)
EClose(f, g, bits) == DOMAIN f = DOMAIN g /\ \A m \in DOMAIN f : NClose(f[m], g[m], bits)

\* --------------------------------------- attribute triples and cleaning (C03)
\* an attribute triple: [rows, coefs (per row list of Num), names, shape]
\* all-zero row
RowIsZero(coefs, r) == \A k \in 1..Len(coefs[r]) : NIsZero(coefs[r][k])
RowIsConst(rows, r) == \A j \in 1..Len(rows[r]) : rows[r][j] = 0
\* Cleaning of an attribute triple exactly as documented: with retain_coefficients off the
\* all-zero NON-CONSTANT terms are dropped (an all-zero polynomial keeps one constant zero
\* term); with retain_names off the names no remaining term uses are dropped (at least one
\* name stays).  rows / coefs are parallel sequences, names the ordered name tuple.
CleanKeep(rows, coefs, rc) ==
  IF rc THEN [r \in 1..Len(rows) |-> r]
  ELSE SelectSeq([r \in 1..Len(rows) |-> r], LAMBDA r : ~RowIsZero(coefs, r) \/ RowIsConst(rows, r))
CleanTriple(rows, coefs, names, size, rc, rn) ==
  LET width == Len(names)
      keep == CleanKeep(rows, coefs, rc)
      erows == IF keep = <<>> THEN <<[j \in 1..width |-> 0]>> ELSE [i \in 1..Len(keep) |-> rows[keep[i]]]
      ecoefs == IF keep = <<>> THEN <<[k \in 1..size |-> NZero]>> ELSE [i \in 1..Len(keep) |-> coefs[keep[i]]]
      cols == IF rn THEN [j \in 1..width |-> j]
              ELSE LET used == SelectSeq([j \in 1..width |-> j], LAMBDA j : \E i \in 1..Len(erows) : erows[i][j] > 0)
                   IN IF used = <<>> THEN <<1>> ELSE used
  IN [rows |-> [i \in 1..Len(erows) |-> [c \in 1..Len(cols) |-> erows[i][cols[c]]]],
      coefs |-> ecoefs,
      names |-> [i \in 1..Len(cols) |-> names[cols[i]]]]
TripleDen(t, shape) == PolyDen([shape |-> shape, names |-> t.names, rows |-> t.rows, coefs |-> t.coefs])
\* ---------------------------------------------------- alignment of triples (C04)
\* A constructive model of the four alignment functions on attribute triples
\* [names, rows, coefs] (+ a shape): what each function does to the representation.
TupleLess(x, y) == \E j \in 1..Len(x) : x[j] < y[j] /\ \A i \in 1..(j - 1) : x[i] = y[i]
TRowSeq(S) == SetToSortSeq(S, LAMBDA x, y : TupleLess(x, y))
\* the rows of t re-expressed over the name tuple `all` (a superset of t.names)
AlignNamesT(t, all) ==
  [names |-> all,
   rows |-> [r \in 1..Len(t.rows) |->
               [j \in 1..Len(all) |-> IF \E i \in 1..Len(t.names) : t.names[i] = all[j]
                                      THEN t.rows[r][CHOOSE i \in 1..Len(t.names) : t.names[i] = all[j]] ELSE 0]],
   coefs |-> t.coefs]
\* t (already over the common names) with the row set extended to `rows`; absent rows get zero coefficients
AlignRowsT(t, rows, size) ==
  [names |-> t.names,
   rows |-> rows,
   coefs |-> [r \in 1..Len(rows) |->
                IF \E i \in 1..Len(t.rows) : t.rows[i] = rows[r]
                THEN t.coefs[CHOOSE i \in 1..Len(t.rows) : t.rows[i] = rows[r]]
                ELSE [k \in 1..size |-> NZero]]]
\* coefficients broadcast from shape `from` to shape `to`
AlignShapeT(t, from, to) ==
  [names |-> t.names, rows |-> t.rows,
   coefs |-> [r \in 1..Len(t.rows) |-> [k \in 1..Size(to) |-> t.coefs[r][BSrc(k, to, from)]]]]
UnionNames(ts) == SetToSortSeq(UNION {{ts[i].names[j] : j \in 1..Len(ts[i].names)} : i \in 1..Len(ts)}, LAMBDA x, y : x < y)
\* align_polynomials on a sequence of triples with shapes: names, then rows, then shape
AlignAllT(ts, shapes) ==
  LET all == UnionNames(ts)
      named == [i \in 1..Len(ts) |-> AlignNamesT(ts[i], all)]
      rows == TRowSeq(UNION {{named[i].rows[r] : r \in 1..Len(named[i].rows)} : i \in 1..Len(ts)})
      common == BShape(shapes)
  IN [i \in 1..Len(ts) |-> AlignShapeT(AlignRowsT(named[i], rows, Size(shapes[i])), shapes[i], common)]
=============================================================================
