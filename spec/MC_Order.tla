------------------------------ MODULE MC_Order ------------------------------
(***************************************************************************)
(* Bounded model for C07 (and the leading-term part of C19): all ordered   *)
(* pairs of a universe of small polynomials in q0, q1 under the four       *)
(* sort_graded / sort_reverse settings.  TLC checks that the documented    *)
(* rule IS a strict total order (trichotomy, antisymmetry, transitivity    *)
(* against every third polynomial, equality only for identical             *)
(* polynomials, constants ordered as numbers); the enumerated pairs are    *)
(* replayed on the six operators, maximum / minimum and the lead queries.  *)
(* Pairs of monomials in three indeterminates cover the order among        *)
(* same-degree monomials in more than two names, and the examples of the   *)
(* user guide are assumptions TLC evaluates: the specification's order is  *)
(* the documented one.                                                     *)
(***************************************************************************)
EXTENDS Poly, TLC

CONSTANTS MaxTerms, Tier
CoefSet == IF Tier = "quick" THEN {-1, 2} ELSE {-1, 1, 2}

VARIABLES vec
Dims == <<0, 1>>
Rows == {<<0, 0>>, <<1, 0>>, <<0, 1>>, <<1, 1>>, <<2, 0>>, <<0, 2>>}
\* a polynomial as representation: a set of rows with a coefficient each
Reps == UNION {[S -> CoefSet] : S \in {T \in SUBSET Rows : Cardinality(T) <= MaxTerms}}
RowMonoD(r) == MNorm([n \in {0, 1} |-> r[n + 1]])
RepPoly(f) == [m \in {RowMonoD(r) : r \in DOMAIN f} |-> NInt(f[CHOOSE r \in DOMAIN f : RowMonoD(r) = m])]
Flags == BOOLEAN \X BOOLEAN

\* monomials in three indeterminates (the order among same-degree monomials in more than two names)
Rows3 == {r \in [1..3 -> 0..(IF Tier = "quick" THEN 2 ELSE 3)] : r[1] + r[2] + r[3] <= (IF Tier = "quick" THEN 2 ELSE 3)}
Mono3(r) == MNorm([n \in {0, 1, 2} |-> r[n + 1]])
Dims3 == <<0, 1, 2>>

Init == vec = [kind |-> "none"]
\* two steps, so that the successors are computed by all workers and not by the one that owns the initial state
Next == \/ vec.kind = "none" /\ \E a \in Reps : vec' = [kind |-> "half", a |-> a]
        \/ vec.kind = "half" /\ \E b \in Reps, f \in Flags :
              vec' = [kind |-> "order", a |-> vec.a, b |-> b, graded |-> f[1], reverse |-> f[2]]
        \/ vec.kind = "none" /\ \E a \in Rows3 : vec' = [kind |-> "half3", a |-> a]
        \/ vec.kind = "half3" /\ \E b \in Rows3, f \in Flags :
              vec' = [kind |-> "mono3", a |-> vec.a, b |-> b, graded |-> f[1], reverse |-> f[2]]
Spec == Init /\ [][Next]_vec

Cmp(x, y) == ECmp(RepPoly(x), RepPoly(y), Dims, vec.graded, vec.reverse)
Trichotomy == vec.kind = "order" => Cmp(vec.a, vec.b) \in {-1, 0, 1}
Antisymmetric == vec.kind = "order" => Cmp(vec.a, vec.b) = 0 - Cmp(vec.b, vec.a)
EqualOnlyIfIdentical == vec.kind = "order" => ((Cmp(vec.a, vec.b) = 0) <=> (RepPoly(vec.a) = RepPoly(vec.b)))
Transitive == vec.kind = "order" =>
   \A c \in Reps : (Cmp(vec.a, vec.b) < 0 /\ Cmp(vec.b, c) < 0) => Cmp(vec.a, c) < 0
ConstantsAsNumbers == vec.kind = "order" =>
   ((DOMAIN vec.a \subseteq {<<0, 0>>} /\ DOMAIN vec.b \subseteq {<<0, 0>>}) =>
       LET va == IF vec.a = <<>> THEN 0 ELSE vec.a[<<0, 0>>]
           vb == IF vec.b = <<>> THEN 0 ELSE vec.b[<<0, 0>>]
       IN Cmp(vec.a, vec.b) = (IF va < vb THEN -1 ELSE IF va > vb THEN 1 ELSE 0))
\* the leading monomial is the largest one present, the leading coefficient its coefficient
LeadIsMax == vec.kind = "order" =>
   LET p == RepPoly(vec.a)
       lm == ELeadMono(p, Dims, vec.graded, vec.reverse)
   IN p = EZero \/ (lm \in DOMAIN p /\ \A m \in DOMAIN p : m = lm \/ MLess(m, lm, Dims, vec.graded, vec.reverse))
\* the monomial order in three indeterminates is total, and graded orders compare total degrees first
Mono3Total == vec.kind = "mono3" =>
   LET a == Mono3(vec.a)  b == Mono3(vec.b)
       lt == MLess(a, b, Dims3, vec.graded, vec.reverse)  gt == MLess(b, a, Dims3, vec.graded, vec.reverse)
   IN /\ (a = b) => (~lt /\ ~gt)
      /\ (a # b) => (lt # gt)
      /\ (vec.graded /\ MDeg(a) < MDeg(b)) => lt
      /\ \A c \in Rows3 : (lt /\ MLess(b, Mono3(c), Dims3, vec.graded, vec.reverse)) => MLess(a, Mono3(c), Dims3, vec.graded, vec.reverse)

\* The examples of docs/user_guide/comparison_operators.rst, under the default options:
\* the specification's order is the documented one.
Mo(r) == Mono3(r)
DocLess(x, y) == MLess(Mo(x), Mo(y), Dims3, TRUE, FALSE)       \* the shipped defaults: sort_graded = True, sort_reverse = False
ASSUME DocumentedOrder ==
  /\ DocLess(<<1, 0, 0>>, <<2, 0, 0>>) /\ DocLess(<<2, 0, 0>>, <<3, 0, 0>>)                  \* q0 < q0**2 < q0**3
  /\ DocLess(<<2, 2, 0>>, <<1, 5, 0>>) /\ DocLess(<<1, 5, 0>>, <<6, 1, 0>>)                  \* q0**2*q1**2 < q0*q1**5 < q0**6*q1
  /\ DocLess(<<1, 0, 0>>, <<0, 0, 2>>) /\ DocLess(<<0, 0, 2>>, <<0, 3, 0>>)                  \* q0 < q2**2 < q1**3
  /\ DocLess(<<1, 0, 0>>, <<0, 1, 0>>) /\ DocLess(<<0, 1, 0>>, <<0, 0, 1>>)                  \* q0 < q1 < q2
  /\ DocLess(<<3, 1, 0>>, <<2, 2, 0>>) /\ DocLess(<<2, 2, 0>>, <<1, 3, 0>>)                  \* q0**3*q1 < q0**2*q1**2 < q0*q1**3
  /\ DocLess(<<2, 2, 1>>, <<2, 1, 2>>) /\ DocLess(<<2, 1, 2>>, <<1, 2, 2>>)                  \* q0**2*q1**2*q2 < q0**2*q1*q2**2 < q0*q1**2*q2**2
=============================================================================
