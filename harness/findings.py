"""Known findings (DESIGN Appendix D): committed in /verif/known_findings.json,
never written at run time.  A rejection is a known finding iff it matches the
property, the action, one of the listed clauses AND the `when` predicate of an
*open* entry; the predicate looks only at INPUT features of the failing event
(operand shapes / dtypes / parameters), never at the result."""
from __future__ import annotations

import ast
import json
import os

VERIF = os.path.dirname(os.path.dirname(os.path.abspath(__file__)))
PATH = os.path.join(VERIF, "known_findings.json")

_ALLOWED = (ast.Expression, ast.BoolOp, ast.And, ast.Or, ast.Not, ast.UnaryOp, ast.USub, ast.Compare, ast.Eq,
            ast.NotEq, ast.Lt, ast.LtE, ast.Gt, ast.GtE, ast.In, ast.NotIn, ast.Name, ast.Load, ast.Constant,
            ast.Subscript, ast.Index, ast.Slice, ast.Call, ast.List, ast.Tuple, ast.BinOp, ast.Add, ast.Sub,
            ast.Mult, ast.Mod, ast.FloorDiv, ast.IfExp, ast.GeneratorExp, ast.ListComp, ast.comprehension,
            ast.Store, ast.keyword, ast.Attribute)
_FUNCS = {"len": len, "any": any, "all": all, "max": max, "min": min, "sum": sum, "abs": abs,
          "set": set, "sorted": sorted, "zip": zip, "tuple": tuple, "list": list, "range": range, "str": str, "int": int}


def safe_eval(expr: str, env: dict):
    tree = ast.parse(expr, mode="eval")
    for node in ast.walk(tree):
        if not isinstance(node, _ALLOWED):
            raise ValueError("expression element not allowed: %s" % type(node).__name__)
        if isinstance(node, ast.Attribute):
            raise ValueError("attribute access not allowed")
        if isinstance(node, ast.Call) and not (isinstance(node.func, ast.Name) and node.func.id in _FUNCS):
            raise ValueError("call not allowed")
    scope = dict(_FUNCS)
    scope.update(env)
    return eval(compile(tree, "<when>", "eval"), {"__builtins__": {}}, scope)  # noqa: S307


def load():
    if not os.path.exists(PATH):
        return []
    with open(PATH) as fh:
        return json.load(fh)["findings"]


def register_map(trace: dict, upto: int):
    """Projection of every register alive before event number `upto` (1-based)."""
    regs = []
    for ev in trace["events"][:upto - 1]:
        if ev["out"] == "ret" and ev.get("kept", True):
            regs.extend(ev["res"])
    return regs


def features(trace: dict, line: int) -> dict:
    ev = trace["events"][line - 1]
    regs = register_map(trace, line)
    args = [regs[a - 1] for a in ev["args"] if 0 < a <= len(regs)]
    f = {"act": ev["act"], "out": ev["out"], "nargs": len(args),
         "arg_kind": [a["kind"] for a in args],
         "arg_shape": [tuple(a.get("shape", ())) for a in args],
         "arg_ndim": [len(a.get("shape", ())) for a in args],
         "arg_size": [_size(a.get("shape", ())) for a in args],
         "arg_dtype": [a.get("dtype", "") for a in args],
         "arg_carrier": [a.get("carrier", "") for a in args],
         "arg_nrows": [len(a.get("rows", [])) for a in args],
         "arg_names": [tuple(a.get("names", ())) for a in args],
         "arg_rows": [[tuple(r) for r in a.get("rows", [])] for a in args],
         "arg_ties": [_has_ties(a) for a in args],
         "arg_maxexp": [max([e for row in a.get("rows", []) for e in row] or [0]) for a in args],
         "opts": ev.get("opts", {})}
    for k, v in ev.items():
        if k in ("act", "out", "args", "res", "digests", "targets", "after", "opts", "ms", "kept", "prop"):
            continue
        f[k] = v
    return f


def _has_ties(a):
    """Does the operand contain two equal elements?"""
    if a.get("kind") == "poly":
        cols = list(zip(*[[json.dumps(c, sort_keys=True) for c in row] for row in a.get("coefs", [])])) if a.get("coefs") else []
    else:
        cols = [json.dumps(c, sort_keys=True) for c in a.get("vals", [])]
    return len(set(cols)) < len(cols)


def _size(shape):
    n = 1
    for s in shape:
        n *= s
    return n


def classify(failure: dict, trace: dict, owner: str, findings: list):
    """Return the id of the open known finding this rejection matches, or None."""
    feats = None
    for kf in findings:
        # C15 runs the whole operation catalogue under non-default options: a finding of any property applies there
        if kf.get("status") != "open" or (kf["property"] != owner and owner != "C15"):
            continue
        m = kf["match"]
        if m.get("act") and m["act"] != failure["act"]:
            continue
        if failure["clause"] not in m["clauses"]:
            continue
        if feats is None:
            feats = features(trace, failure["line"])
            feats["clause"] = None      # the predicate must not depend on the outcome
        try:
            if safe_eval(m.get("when", "True"), feats):
                return kf["id"]
        except Exception:  # a predicate that cannot be evaluated matches nothing
            continue
    return None
