"""C18 driver: glexsort, glexindex, bindex, cross_truncate, monomial."""
from __future__ import annotations

import random

import numpy

from ..record import Recorder, reset_options

NORMS = [0, 1, 2, "inf", 0.5, 0.8]


def qstr(q):
    if q == "inf":
        return "inf"
    q = float(q)
    return {0.0: "0", 1.0: "1", 2.0: "2", 0.5: "0.5", 0.8: "0.8"}[q]


def index_params(rng, max_dim=4, max_bound=6):
    d = rng.randint(1, max_dim)
    maxb = max_bound if d <= 2 else (5 if d == 3 else 4)

    def bound(lo=0):
        if rng.random() < 0.5:
            return rng.randint(lo, maxb)
        return [rng.randint(lo, maxb) for _ in range(d)]
    q = {}
    stop = bound(1)
    if rng.random() < 0.5:
        q["start"] = stop                      # single bound: start <- 0, stop <- start
        start_l, stop_l = 0, stop
    else:
        start = bound(0)
        if rng.random() < 0.85:                # mostly start <= stop component-wise
            sa, so = numpy.broadcast_arrays(numpy.atleast_1d(start), numpy.atleast_1d(stop))
            start = numpy.minimum(sa, so).tolist()
            if len(start) == 1:
                start = start[0]
        q["start"], q["stop"] = start, stop
        start_l, stop_l = start, stop
    q["dimensions"] = d
    ct = rng.choice(NORMS)
    if rng.random() < 0.25:
        ct2 = rng.choice(NORMS)
        q["cross_truncation"] = [ct, ct2]
        qlow, qup = qstr(ct), qstr(ct2)
    else:
        q["cross_truncation"] = ct
        qlow = qup = qstr(ct)
    s, t, _ = numpy.broadcast_arrays(numpy.array(start_l, dtype=int).flatten(),
                                     numpy.array(stop_l, dtype=int).flatten(), numpy.empty(d))
    return q, [int(x) for x in s], [int(x) for x in t], qlow, qup


def one_trace(rng, tid, prop):
    reset_options()
    rec = Recorder(tid, prop)
    for _ in range(rng.randint(4, 8)):
        fam = rng.choice(["glexsort", "glexsort", "glexindex", "glexindex", "bindex", "monomial", "cross_truncate"])
        if fam == "glexsort":
            big = rng.random() < 0.15
            nr = rng.randint(1, 4 if big else 3)
            nc = rng.randint(20, 400) if big else rng.randint(1, 8)
            hi = rng.choice([1, 2, 2, 3, 5])
            keys = [[rng.randint(0, hi) for _ in range(nc)] for _ in range(nr)]
            oned = nr == 1 and rng.random() < 0.5
            g, r = rng.random() < 0.5, rng.random() < 0.5
            given = []
            if rng.random() < 0.3:
                import numpy
                arr = numpy.array(keys, dtype=rng.choice(["int64", "uint32"]))
                given = [rec.new(arr[0] if oned else arr)]        # the caller's own array must come back untouched (C17)
            rec.do("index", given, keep=False, fn="glexsort", p={"keys": keys, "graded": g, "reverse": r, "oned": oned},
                   keys=keys, graded=g, reverse=r)
        elif fam in ("glexindex", "monomial"):
            q, s, t, qlow, qup = index_params(rng)
            g, r = rng.random() < 0.5, rng.random() < 0.5
            q["graded"], q["reverse"] = g, r
            dim_names = []
            if fam == "monomial" and "dimensions" in q and isinstance(q["dimensions"], int) and rng.random() < 0.4:
                # `dimensions` given as the names themselves instead of their number
                dim_names = sorted(rng.sample([0, 1, 2, 3, 5, 10], q["dimensions"]))
                q["dim_names"] = dim_names
            rec.do("index", [], keep=False, fn=fam, p=q, start=s, stop=t, qlow=qlow, qup=qup,
                   graded=g, reverse=r, inverse=False, dim_names=dim_names)
        elif fam == "bindex":
            q, s, t, qlow, qup = index_params(rng)
            ordering = "".join(c for c in "GRI" if rng.random() < 0.5)
            if rng.random() < 0.8:
                q["ordering"] = ordering
            else:
                ordering = "G"                  # the documented default
            rec.do("index", [], keep=False, fn="bindex", p=q, start=s, stop=t, qlow=qlow, qup=qup,
                   graded="G" in ordering, reverse="R" not in ordering, inverse="I" in ordering)
        else:
            d = rng.randint(1, 4)
            n = rng.randint(1, 12)
            idx = [[rng.randint(0, 6) for _ in range(d)] for _ in range(n)]
            bnd = rng.randint(-1, 6) if rng.random() < 0.4 else [rng.randint(-1 if rng.random() < 0.1 else 0, 6) for _ in range(d)]
            norm = rng.choice(NORMS)
            bl = [bnd] * d if isinstance(bnd, int) else bnd
            rec.do("index", [], keep=False, fn="cross_truncate", p={"indices": idx, "bound": bnd, "norm": norm},
                   indices=idx, bound=bl, norm=qstr(norm))
    return rec.to_json()


def generate(seed, n, prop="C18", start=0, **kw):
    out = []
    for i in range(start, start + n):
        rng = random.Random("index/%d/%d" % (seed, i))
        out.append(one_trace(rng, "%s-index-s%d-%05d" % (prop, seed, i), prop, **kw))
    return out
