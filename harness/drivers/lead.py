"""C19 driver: leading-term queries, isconstant / tonumpy / todict / decompose /
set_dimensions, the sort proxy and argmax/argmin/amax/amin without axis."""
from __future__ import annotations

import random

import numpy

from .. import gen
from ..project import build_poly
from ..record import Recorder, reset_options
from .order import tied_poly_spec


def one_trace(rng, tid, prop):
    reset_options()
    rec = Recorder(tid, prop)
    sg, sr = rng.random() < 0.5, rng.random() < 0.5
    if rng.random() < 0.6:
        rec.do("set_options", [], keep=False, kw={"sort_graded": sg, "sort_reverse": sr}, bad=[])
    names = gen.rand_names(rng, 1, 3, pool=(0, 1, 2, 3))
    kind = rng.choice(["int", "int", "float"])
    polys = []
    for _ in range(rng.randint(2, 3)):
        shape = rng.choice([(), (2,), (3,), (4,), (2, 2), (2, 3), (1, 2)])
        c = rng.random()
        if c < 0.2 and len(names) >= 2:
            spec = tied_poly_spec(rng, names, shape, nterms=rng.randint(3, 12))
        elif c < 0.35:
            # constants only
            size = int(numpy.prod(shape, dtype=int))
            spec = {"shape": list(shape), "names": list(names), "rows": [[0] * len(names)],
                    "coefs": [[rng.choice(gen.coef_pool(kind)) for _ in range(size)]], "dtype": gen.dtype_of(kind)}
        else:
            spec = gen.rand_poly_spec(rng, shape=shape, names=names, kind=kind, max_terms=4, max_exp=2)
        polys.append(gen.maybe_view(rec, rng, rec.new(build_poly(spec)), 0.3))
    for _ in range(rng.randint(5, 10)):
        a = rng.choice(polys)
        fam = rng.choice(["lead_exponent", "lead_coefficient", "sortable_proxy", "isconstant", "tonumpy", "todict",
                          "decompose", "set_dimensions", "argext", "argext"])
        if fam in ("lead_exponent", "lead_coefficient", "sortable_proxy"):
            given = rng.random() < 0.8
            g, r = (rng.random() < 0.5, rng.random() < 0.5) if given else (False, False)
            rec.do("lead", [a], keep=False, fn=fam, flags_given=given, graded=g, reverse=r)
        elif fam == "isconstant":
            rec.do("lead", [a], keep=False, fn="isconstant", spelling=rng.choice(["numpoly", "method"]), graded=False, reverse=False)
        elif fam == "tonumpy":
            rec.do("tonumpy", [a], keep=False, spelling=rng.choice(["numpoly", "method"]))
        elif fam == "todict":
            rec.do("todict", [a], keep=False)
        elif fam == "decompose":
            rec.do("decompose", [a], keep=False)
        elif fam == "set_dimensions":
            new = rec.do("set_dimensions", [a], dims=rng.randint(1, 5))
            if new and len(polys) < 5:
                polys.extend(new)
        else:
            fn = rng.choice(["argmax", "argmin", "amax", "amin"])
            # ndpoly overrides max/min only; ndarray.argmax/argmin on the raw storage are not claimed
            sps = ["numpoly", "numpy"] + (["method"] if fn in ("amax", "amin") else [])
            rec.do("lead", [a], keep=False, fn=fn, spelling=rng.choice(sps), graded=False, reverse=False)
    reset_options()
    return rec.to_json()


def generate(seed, n, prop="C19", start=0, **kw):
    out = []
    for i in range(start, start + n):
        rng = random.Random("lead/%d/%d" % (seed, i))
        out.append(one_trace(rng, "%s-lead-s%d-%05d" % (prop, seed, i), prop, **kw))
    return out
