"""C16 driver: str / repr under every display option setting (incl. alternative
exponent / multiplication signs), all coefficient types; sympy round trip."""
from __future__ import annotations

import random

from .. import gen
from ..project import build_poly
from ..record import Recorder, reset_options


def one_trace(rng, tid, prop):
    reset_options()
    rec = Recorder(tid, prop)
    kw = {"display_graded": rng.random() < 0.5, "display_reverse": rng.random() < 0.5,
          "display_inverse": rng.random() < 0.5,
          "display_exponent": rng.choice(["**", "**", "^"]), "display_multiply": rng.choice(["*", "*", "·"])}
    if rng.random() < 0.4:
        # the other options must not matter for the text either (C15)
        kw.update({"retain_names": rng.random() < 0.5, "retain_coefficients": rng.random() < 0.5,
                   "sort_graded": rng.random() < 0.5, "sort_reverse": rng.random() < 0.5})
    # sympy round trips of 0-d polynomials with arbitrary double coefficients (to_sympy reads str(p) as Python, so only
    # under the default display signs: C15 may have set others before the trace starts)
    from ..record import opts_now
    signs_ok = opts_now()["display_exponent"] == "**" and opts_now()["display_multiply"] == "*"
    for _ in range(2 if signs_ok else 0):
        names = gen.rand_names(rng, 1, 3, pool=(0, 1, 2, 10, 12))
        spec = gen.rand_poly_spec(rng, shape=(), names=names, kind="float", max_terms=4, max_exp=3, min_terms=1)
        spec["coefs"] = [[rng.uniform(-10.0, 10.0) if rng.random() < 0.8 else rng.choice([0.1, 1.0 / 3.0, 1e-05, 2.5e+20])] for _ in spec["coefs"]]
        a = rec.new(build_poly(spec))
        rec.do("rebuild", [a], keep=False, via="sympy")
    if rng.random() < 0.85:
        rec.do("set_options", [], keep=False, kw=kw, bad=[])
    for _ in range(rng.randint(2, 4)):
        kind = rng.choice(["int", "int", "float", "complex", "bool"])
        names = gen.rand_names(rng, 1, 3, pool=(0, 1, 2, 10, 12))
        shape = rng.choice([(), (), (2,), (2, 2), (1, 3), (2, 1, 2)])
        if kind == "bool":
            spec = gen.rand_poly_spec(rng, shape=shape, names=names, kind="int", max_terms=3, max_exp=2)
            spec["coefs"] = [[bool(c % 2) for c in row] for row in spec["coefs"]]
            spec["dtype"] = "bool"
        else:
            spec = gen.rand_poly_spec(rng, shape=shape, names=names, kind=kind, max_terms=rng.choice([1, 2, 4, 6]), max_exp=3)
            if rng.random() < 0.4:
                spec["coefs"] = [[rng.choice([1, -1]) * (1 if kind == "int" else 1.0) if kind != "complex" else c for c in row]
                                 for row in spec["coefs"]]
        if kind == "float" and rng.random() < 0.5:
            # arbitrary doubles (17 significant digits, tiny and huge magnitudes), not only short binary fractions
            def any_double():
                c = rng.random()
                if c < 0.6:
                    return rng.uniform(-10.0, 10.0)
                if c < 0.8:
                    return rng.choice([0.1, -0.3, 1.0 / 3.0, 2.0 / 3.0, 1e-05, 1.5e-07, 123456789.125, 1e+16, 2.5e+20])
                return rng.uniform(-1.0, 1.0) * 10.0 ** rng.randint(-8, 12)
            spec["coefs"] = [[any_double() if c else 0.0 for c in row] for row in spec["coefs"]]
        a = rec.new(build_poly(spec))
        for fn in rng.sample(["str", "repr", "array_str", "array_repr"], 2):
            rec.do("text", [a], keep=False, fn=fn, lexerror="", terms=[], text="")
        default_signs = rec.events[-1]["opts"]["display_exponent"] == "**" and rec.events[-1]["opts"]["display_multiply"] == "*"
        if shape == () and kind in ("int", "float") and default_signs:     # to_sympy reads str(p) as Python
            rec.do("rebuild", [a], keep=False, via="sympy")
    reset_options()
    return rec.to_json()


def generate(seed, n, prop="C16", start=0, **kw):
    out = []
    for i in range(start, start + n):
        rng = random.Random("text/%d/%d" % (seed, i))
        out.append(one_trace(rng, "%s-text-s%d-%05d" % (prop, seed, i), prop, **kw))
    return out
