----------------------------- MODULE MC_LinAlg -----------------------------
(***************************************************************************)
(* Bounded model for the linear-algebra half of C10: determinants of every *)
(* zero pattern of 1x1, 2x2 and 3x3 matrices (and stacks of two), every    *)
(* matmul shape combination up to extent 2 (3 in the thorough tier)        *)
(* including stacked and broadcast batches, inner and outer products of    *)
(* vectors, and diff / ediff1d for every shape, axis, order and            *)
(* prepend / append choice.  TLC checks on symbolic matrices (element k is *)
(* the indeterminate q_k) that the determinant is multilinear and          *)
(* alternating, multiplicative on 2x2, that matmul is associative and has  *)
(* the identity, that inner is the trace of outer and that diff            *)
(* telescopes; every vector is replayed.                                   *)
(***************************************************************************)
EXTENDS PolyArray

CONSTANTS Tier
VARIABLES vec

Ext == IF Tier = "quick" THEN 1..2 ELSE 1..3
MatShapes == UNION {
  {[a |-> <<n, k>>, b |-> <<k, m>>] : n \in Ext, k \in Ext, m \in Ext},                 \* matrix @ matrix
  {[a |-> <<2, n, k>>, b |-> <<k, m>>] : n \in 1..2, k \in 1..2, m \in 1..2},             \* stack @ matrix
  {[a |-> <<n, k>>, b |-> <<2, k, m>>] : n \in 1..2, k \in 1..2, m \in 1..2},             \* matrix @ stack
  {[a |-> <<2, n, k>>, b |-> <<2, k, m>>] : n \in 1..2, k \in 1..2, m \in 1..2},          \* stack @ stack
  {[a |-> <<1, n, k>>, b |-> <<2, k, m>>] : n \in 1..2, k \in 1..2, m \in 1..2},          \* broadcast batch
  {[a |-> <<k>>, b |-> <<k, m>>] : k \in Ext, m \in Ext},                                  \* vector @ matrix (known finding)
  {[a |-> <<n, k>>, b |-> <<k>>] : n \in Ext, k \in Ext},                                  \* matrix @ vector (known finding)
  {[a |-> <<k>>, b |-> <<k>>] : k \in Ext}}
DiffShapes == IF Tier = "quick" THEN {<<3>>, <<2, 2>>, <<1, 3>>} ELSE {<<2>>, <<3>>, <<2, 2>>, <<1, 3>>, <<3, 1>>, <<2, 3>>, <<2, 1, 2>>}
Extra == {"none", "scalar", "array"}

Init == vec = [kind |-> "none"]
Next ==
  \/ vec.kind = "none" /\ \E f \in {"det", "matmul", "inner", "outer", "diff", "ediff1d"} : vec' = [kind |-> "fn", fn |-> f]
  \/ vec.kind = "fn" /\ vec.fn = "det" /\
       \E n \in 1..3, stack \in BOOLEAN : \E zeros \in SUBSET (1..(n * n)) :
          /\ (stack => n <= 2)
          /\ vec' = [kind |-> "det", n |-> n, stack |-> stack, zeros |-> zeros]
  \* 4 x 4: dense, one zero entry, a zero row, upper triangular (the sign of the cofactors shows from order 4 on)
  \/ vec.kind = "fn" /\ vec.fn = "det" /\
       \E zeros \in {{}, {6}, {5, 6, 7, 8}, {5, 9, 10, 13, 14, 15}, {2, 3, 4, 7, 8, 12}} :
          vec' = [kind |-> "det", n |-> 4, stack |-> FALSE, zeros |-> zeros]
  \/ vec.kind = "fn" /\ vec.fn = "matmul" /\ \E s \in MatShapes : vec' = [kind |-> "matmul", a |-> s.a, b |-> s.b]
  \/ vec.kind = "fn" /\ vec.fn = "inner" /\ \E n \in 1..3 : vec' = [kind |-> "inner", n |-> n]
  \/ vec.kind = "fn" /\ vec.fn = "outer" /\ \E n \in 1..3, m \in 1..3 : vec' = [kind |-> "outer", n |-> n, m |-> m]
  \/ vec.kind = "fn" /\ vec.fn = "diff" /\
       \E s \in DiffShapes, n \in 0..2, pre \in Extra, app \in Extra : \E ax \in (0 - Len(s))..(Len(s) - 1) :
          vec' = [kind |-> "diff", shape |-> s, axis |-> ax, n |-> n, pre |-> pre, app |-> app]
  \/ vec.kind = "fn" /\ vec.fn = "ediff1d" /\
       \E s \in DiffShapes, pre \in Extra, app \in Extra : vec' = [kind |-> "ediff1d", shape |-> s, pre |-> pre, app |-> app]
Spec == Init /\ [][Next]_vec

\* ------------------------------------------------------------------ laws
Sym(s, base) == [shape |-> s, el |-> [k \in 1..Size(s) |-> ETerm(NOne, MVar(base + k))]]
SymZ(s, zeros) == [shape |-> s, el |-> [k \in 1..Size(s) |-> IF k \in zeros THEN EZero ELSE ETerm(NOne, MVar(k))]]
At2(d, i, j) == d.el[1 + Ravel(<<i - 1, j - 1>>, d.shape)]
Mat(n, F(_, _)) == [shape |-> <<n, n>>, el |-> [k \in 1..(n * n) |-> F(((k - 1) \div n) + 1, ((k - 1) % n) + 1)]]
DetLaws ==
  (vec.kind = "det" /\ ~vec.stack) =>
    LET n == vec.n
        Ma == SymZ(<<n, n>>, vec.zeros)
        d == DDet(Ma).el[1]
        swapped == Mat(n, LAMBDA i, j : At2(Ma, IF i = 1 THEN n ELSE IF i = n THEN 1 ELSE i, j))       \* first and last row exchanged
        transposed == Mat(n, LAMBDA i, j : At2(Ma, j, i))
        scaled == Mat(n, LAMBDA i, j : IF i = 1 THEN EScale(NInt(3), At2(Ma, i, j)) ELSE At2(Ma, i, j))
    IN /\ DDet(transposed).el[1] = d
       /\ (n >= 2 => DDet(swapped).el[1] = ENeg(d))
       /\ DDet(scaled).el[1] = EScale(NInt(3), d)
       /\ ((\E i \in 1..n : \A j \in 1..n : At2(Ma, i, j) = EZero) => d = EZero)                      \* a zero row
       /\ ((\A i, j \in 1..n : i > j => At2(Ma, i, j) = EZero) =>                                      \* triangular
             d = FoldLeft(LAMBDA acc, i : EMul(acc, At2(Ma, i, i)), EOne, [i \in 1..n |-> i]))
Identity(n) == Mat(n, LAMBDA i, j : IF i = j THEN EOne ELSE EZero)
MatMulLaws ==
  (vec.kind = "matmul" /\ Len(vec.a) = 2 /\ Len(vec.b) = 2) =>
    LET Ma == Sym(vec.a, 0)  Mb == Sym(vec.b, 10)
        Mc == Sym(<<vec.b[2], 2>>, 20)
    IN /\ DMatMul(DMatMul(Ma, Mb), Mc) = DMatMul(Ma, DMatMul(Mb, Mc))
       /\ DMatMul(Ma, Identity(vec.a[2])) = Ma
       /\ DMatMul(Identity(vec.a[1]), Ma) = Ma
       /\ (vec.a = vec.b /\ vec.a[1] = vec.a[2] /\ vec.a[1] <= 2 =>
             DDet(DMatMul(Ma, Mb)).el[1] = EMul(DDet(Ma).el[1], DDet(Mb).el[1]))                          \* multiplicative
VectorLaws ==
  /\ vec.kind = "inner" =>
       LET a == Sym(<<vec.n>>, 0)  b == Sym(<<vec.n>>, 10)  o == DOuter(a, b)
       IN DInnerVec(a, b).el[1] = FoldLeft(LAMBDA acc, i : EAdd(acc, At2(o, i, i)), EZero, [i \in 1..vec.n |-> i])
  /\ vec.kind = "outer" =>
       LET a == Sym(<<vec.n>>, 0)  b == Sym(<<vec.m>>, 10)
       IN DOuter(a, b).shape = <<vec.n, vec.m>> /\ DOuter(a, b) = DMatMul([a EXCEPT !.shape = <<vec.n, 1>>], [b EXCEPT !.shape = <<1, vec.m>>])
DiffLaws ==
  (vec.kind = "diff" /\ vec.pre = "none" /\ vec.app = "none") =>
    LET a == Sym(vec.shape, 0)
        ax == NormAxis(vec.axis, Len(vec.shape))
        d1 == DDiff(a, 1, ax, <<>>, <<>>)
    IN /\ DDiff(a, 0, ax, <<>>, <<>>) = a
       /\ (vec.n = 2 /\ vec.shape[ax + 1] >= 2 => DDiff(a, 2, ax, <<>>, <<>>) = DDiff(d1, 1, ax, <<>>, <<>>))
       \* telescoping: the sum of first differences along the axis is last - first
       /\ (vec.shape[ax + 1] >= 2 =>
             \A k \in 1..Size(DSumAxes(d1, {ax}, TRUE).shape) :
                LET mi == Unravel(k - 1, DSumAxes(d1, {ax}, TRUE).shape)
                IN DSumAxes(d1, {ax}, TRUE).el[k] =
                     ESub(DAt(a, SetAx(mi, ax, vec.shape[ax + 1] - 1)), DAt(a, SetAx(mi, ax, 0))))
=============================================================================
