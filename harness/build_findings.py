"""Development-time tool: (re)generate /verif/known_findings.json.  The file is
committed; checks never write it.  Witnesses are recorded by running the tiny
programs below on the current tree; each is a trace in the Appendix C format and
is re-executed from its own JSON on every check run."""
from __future__ import annotations

import json
import os
import sys

sys.path.insert(0, os.path.dirname(os.path.dirname(os.path.abspath(__file__))))

from harness.project import build_poly  # noqa: E402
from harness.record import Recorder, reset_options  # noqa: E402
from harness.actions import gather_map  # noqa: E402

FINDINGS = []


def witness(fn):
    reset_options()
    rec = Recorder("witness", "?")
    fn(rec)
    tr = rec.to_json()
    for ev in tr["events"]:
        ev.pop("ms", None)
    return {"events": tr["events"]}


def poly(shape, names, rows, coefs, dtype="int64"):
    return build_poly({"shape": list(shape), "names": list(names), "rows": rows, "coefs": coefs, "dtype": dtype})


def finding(**kw):
    FINDINGS.append(kw)


# ---------------------------------------------------------------------- open
def w_repeat(rec):
    a = rec.new(poly((2, 2), (0,), [[0], [1]], [[1, 2, 3, 4], [1, 1, 1, 1]]))
    p = {"fn": "repeat", "p": {"repeats": 2, "axis": "omitted"}, "spelling": "numpoly"}
    rec.do("move", [a], _multi=True, gather=gather_map(p, [(2, 2)]), model=[], **p)


finding(id="KF-C09-repeat-default-axis", property="C09", status="open",
        what="repeat(a, n) without an axis repeats along axis 0 where numpy flattens (the deviating default is pinned by test_repeat, so it cannot be repaired without editing the suite)",
        match={"act": "move", "clauses": ["shape", "value", "raised"],
               "when": "fn == 'repeat' and p['axis'] == 'omitted' and arg_ndim[0] >= 2"},
        witness=witness(w_repeat))

def _reduce(rec, fn, args, p, spelling="numpoly"):
    from harness.actions import reduce_fields
    rec.do("reduce", args, fn=fn, p=p, spelling=spelling, **reduce_fields(fn, p))


def w_matmul(rec):
    a = rec.new(poly((2, 2), (0,), [[0], [1]], [[1, 2, 3, 4], [1, 0, 0, 1]]))
    b = rec.new(poly((2,), (0,), [[0], [1]], [[2, 1], [0, 1]]))
    _reduce(rec, "matmul", [a, b], {})


finding(id="KF-C10-matmul-1d", property="C10", status="open",
        what="matmul with a 1-d operand does not follow numpy's promote-and-squeeze rule: (n,k)@(k,) returns the (n,k) array of element-wise row products, (k,)@(k,m) keeps a leading axis of length 1, (k,)@(k,) returns a (k,) array; the (n,k)@(k,) result is pinned by test_matmul and the docstring, so it cannot be repaired without editing the suite",
        match={"act": "reduce", "clauses": ["shape", "value"],
               "when": "fn == 'matmul' and (arg_ndim[0] == 1 or arg_ndim[1] == 1)"},
        witness=witness(w_matmul))


def w_diff_empty(rec):
    a = rec.new(poly((2,), (0,), [[0], [1]], [[1, 2], [1, 1]]))
    _reduce(rec, "diff", [a], {"axis": -1, "n": 2})


finding(id="KF-C10-diff-empty", property="C10", status="open",
        what="diff whose result is empty (n >= extent along the axis) returns a 0-d polynomial built from unwritten memory instead of an array with a zero-length axis: numpoly cannot represent empty polynomial arrays (EMPTY.coefficients == [] is pinned by test_scalars)",
        match={"act": "reduce", "clauses": ["shape", "value"],
               "when": "fn == 'diff' and n > 0 and n >= arg_shape[0][axes[0]] + sum([(s[axes[0]] if len(s) else 1) for s in arg_shape[1:]])"},
        witness=witness(w_diff_empty))


def w_ediff1d(rec):
    a = rec.new(poly((1,), (0,), [[0], [1]], [[1], [1]]))
    _reduce(rec, "ediff1d", [a], {})


finding(id="KF-C10-ediff1d-size1", property="C10", status="open",
        what="ediff1d of an array with fewer than two elements returns one element of unwritten memory instead of an empty difference (same root cause: empty polynomial arrays are not representable)",
        match={"act": "reduce", "clauses": ["shape", "value"],
               "when": "fn == 'ediff1d' and arg_size[0] <= 1"},
        witness=witness(w_ediff1d))

finding(id="KF-C12-diff-empty-poison", property="C12", status="open",
        what="diff whose result is empty returns coefficients that were never written (uninitialised memory, visible as the 0xA5 pattern under the poisoning allocator); same root cause as KF-C10-diff-empty",
        match={"act": "reduce", "clauses": ["poison"],
               "when": "fn == 'diff' and n > 0 and n >= arg_shape[0][axes[0]] + sum([(s[axes[0]] if len(s) else 1) for s in arg_shape[1:]])"},
        witness=witness(w_diff_empty))
finding(id="KF-C12-ediff1d-size1-poison", property="C12", status="open",
        what="ediff1d of an array with fewer than two elements returns an element of uninitialised memory; same root cause as KF-C10-ediff1d-size1",
        match={"act": "reduce", "clauses": ["poison"], "when": "fn == 'ediff1d' and arg_size[0] <= 1"},
        witness=witness(w_ediff1d))

def _polydiv(rec, args, fn="divmod", spelling="function"):
    rec.do("polydiv", args, keep=False, fn=fn, spelling=spelling, capped=False, digs=[], iterations=0)


def w_pingpong(rec):
    n = rec.new(poly((), (0, 1), [[0, 1]], [[1.0]], "float64"))                      # q1
    d = rec.new(poly((), (0, 1), [[0, 1], [1, 0]], [[-2.0], [-2.0]], "float64"))      # -2*q1-2*q0
    _polydiv(rec, [n, d])


finding(id="KF-C05-pingpong", property="C05", status="open",
        what="poly_divmod does not terminate when a divisor element has two terms neither of which divides the other: the loop eliminates them alternately and the running dividend cycles (poly_divmod(q1, -2*q1-2*q0): q1 -> -q0 -> q1 ...). TLC finds the same lasso in spec/Divide.tla under the candidate rule as implemented and none under a leading-term rule; repairing it means changing the division algorithm, not a small patch",
        match={"act": "polydiv", "clauses": ["nontermination", "nontermination_repeat"],
               "when": "any([(not all([x <= y for x, y in zip(r1, r2)])) and (not all([y <= x for x, y in zip(r1, r2)])) for r1 in arg_rows[1] for r2 in arg_rows[1]])"},
        witness=witness(w_pingpong))


def w_numpy_left(rec):
    import numpy
    n = rec.new(numpy.float64(1.5))
    d = rec.new(poly((), (0,), [[0], [1]], [[1.0], [2.0]], "float64"))
    _polydiv(rec, [n, d], fn="divide", spelling="operator")


finding(id="KF-C05-numpy-left-operand", property="C05", status="open",
        what="with a numpy array or numpy scalar on the left, '/', '%' and divmod() do not reach poly_divide/poly_remainder/poly_divmod: ndarray.__truediv__ hands the call to the true_divide/remainder/divmod ufuncs, which numpoly answers with numeric semantics (FeatureNotSupported for a non-constant divisor, numeric floor/remainder for a constant one). Python numbers on the left work. Both behaviours are required by other documented rules (C11), so this is a design conflict, not a small patch",
        match={"act": "polydiv", "clauses": ["raised", "value_constant_divisor", "value_identity", "value_exact_multiple", "value_degree", "shape", "type"],
               "when": "spelling == 'operator' and arg_carrier[0] in ('ndarray', 'npscalar')"},
        witness=witness(w_numpy_left))

def _constfn(rec, fn, args, p, index_result=False):
    rec.do("constfn", args, keep=False, fn=fn, p=p, spelling="numpoly", index_result=index_result, np=[], np_out="ret")


def w_amax_axis(rec):
    a = rec.new(poly((2, 2), (0,), [[0]], [[2, 3, 1, 0]]))
    _constfn(rec, "amax", [a], {"axis": 1})


finding(id="KF-C11-amax-axis-order", property="C11", status="open",
        what="amax/amin/max/min with an axis return the right set of extremes in the wrong order whenever more than one is returned (amax([[2,3],[1,0]], axis=1) is [1,3], numpy gives [3,1]): the selected elements are re-ordered by argsort(indices) instead of its inverse. test_amax/test_amin/test_max/test_min compare against exactly these wrongly ordered values, so the repair would make them fail",
        match={"act": "constfn", "clauses": ["value"], "when": "fn in ('amax', 'amin', 'max', 'min') and 'axis' in p and arg_ndim[0] >= 2"},
        witness=witness(w_amax_axis))


def w_argmax_ties(rec):
    a = rec.new(poly((4,), (0,), [[0]], [[3, 1, 3, 2]]))
    _constfn(rec, "argmax", [a], {}, index_result=True)


# --------------------------------------------------------------------- fixed
FIXED = [
    ("C01", "8ccbe55", "power with an array exponent: transposed / wrongly broadcast result for 3-d operands and for base and exponent of different ndim"),
    ("C09", "ad59961", "reshape passed newshape= to numpy.reshape (TypeError on numpy >= 2.4); broke reshape, prod, matmul, amax/amin, loadtxt"),
    ("C09", "7971e06+6cee4eb", "ndpoly.values ignored strides: reshape / broadcast_arrays / expand_dims / tile of a transposed array misplaced elements"),
    ("C12", "4727456", "polynomial_from_attributes left coefficients of int8..int32, uint8..uint64, float16/32, complex64 unwritten (uninitialised memory) and rejected read-only inputs (diag, diagonal)"),
    ("C09", "7001aa0", "choose failed unless all choices had one common shape with >= 1 dimension"),
    ("C10", "b0345b4", "prod over a tuple of axes kept the reduced axes (keepdims=False) and returned partial products for negative axes"),
    ("C10", "e1f0ff9", "det of 1x1 matrices returned 0"),
    ("C18", "d4a7197", "glexsort(graded=True) broke ties with an unstable sort: glexsort([[3,3,0,1],[0,0,2,1]], graded=True) = [2,3,1,0]; comparisons, lead terms, sort proxy, print order inherit it"),
    ("C18", "fa38b4a", "glexindex/bindex/monomial returned the indices below start (xor of the two truncation sets) when the lower set was not inside the upper one"),
    ("C19", "6e5ea68", "tonumpy raised ValueError for a constant polynomial that has no explicit constant row (all stored terms zero)"),
    ("C19", "faec1d6", "set_dimensions dropping every term returned an unwritten 0-d polynomial"),
    ("C02", "958beb8", "evaluation with a Python int argument: OverflowError for negative values ((q0**2)(-1)), silent uint32 wrap for large ones ((q0**2)(2**17) == 0)"),
    ("C06", "c9c09e7", "hessian had shape (D', D) + p.shape with D' < D when retain_names is off"),
    ("C06", "6cbef29", "derivative stored terms free of the variable with exponent 2**32-1 (storage key code point 58) under retain_coefficients=True"),
    ("C12", "f1457b8", "multiply returned uninitialised coefficients unless the product dtype was bool/uint32/int64/float64/complex128, and failed (UnicodeDecodeError / wrong key) for exponent sums >= 69 (also C20)"),
    ("C12", "786c41b", "align_shape promoted every broadcast operand to int64/float64, so + and - between small dtypes of different shapes returned the wrong dtype"),
    ("C13", "f4ac822", "savetxt -> loadtxt failed for 0-d, single-element and single-term polynomials; loadtxt dropped the first row of a plain file given as file object"),
    ("C13", "139eb2e", "pickling dropped retained all-zero terms (exponents of align_polynomials output changed across pickle)"),
    ("C16", "82bae26", "str/repr of complex coefficients with negative real part lost the '+' between terms"),
    ("C11", "e66f54d", "count_nonzero ignored keepdims"),
    ("C08", "93489bd", "ufunc.reduce/accumulate without numpoly counterpart (numpy.subtract.reduce(p)) raised KeyError instead of FeatureNotSupported"),
    ("C06", "0c16034", "derivative(p, numpoly.variable(3)[0]) raised AssertionError under retain_coefficients=True (reported by a seeding sub-agent as a side finding, then reproduced by the extended driver)"),
    ("C06", "6fed986", "derivative by positional index picked the wrong variable after an earlier pass re-ordered unsorted indeterminants (retain_names=False)"),
    ("C06", "dcf989d", "hessian was not symmetric for polynomials whose names are not stored in index order"),
    ("C07", "75b39ea", "comparisons / maximum / minimum of operands that all carry the same name tuple stored out of index order (symbols('q2 q1')) ordered monomials by the stored columns: with sort_graded=False, q1**2 < q2 is True but False for the same polynomials stored over (q2, q1) (found by the quick sweep at VERIF_SEED=6)"),
    ("C19", "a15c0d3", "lead_exponent / lead_coefficient / sortable_proxy of a polynomial whose names are stored out of index order picked the leading term by the stored column order"),
    ("C03", "c3b2c18", "polynomial_from_attributes with names omitted and retain_names=False dropped the unused exponent columns first and numbered the default names afterwards: exponents [[0, 1]] became 2*q0 instead of 2*q1 (found after a surviving mutant showed that no driver passed names as a string / omitted them)"),
    ("C10", "22affad", "det of matrices of order >= 4 was wrong (cyclic column order without the cofactor sign; a 4x4 integer matrix with determinant 28 gave 0); reported as a side remark by two seeding sub-agents, then reproduced by the 4x4 vectors added to MC_LinAlg (37 rejections)"),
    ("C10", "05be182", "numpy.add.reduce(a) / numpy.add.accumulate(a) without an axis returned the total / the flattened running sum instead of working along the first axis as numpy does (reported as a side remark by a seeding sub-agent, reproduced once the driver omitted the axis: 34 rejections)"),
    ("C20", "d65d9cb", "exponents no polynomial can carry were accepted and stored as other monomials: polynomial_from_attributes([[2**32 + 5]], [4]) was 4*q0**5, -1 became q0**4294967295, 2**63 the constant 4 (mentioned in passing by a seeding sub-agent; 180 rejections once the key driver generated such exponents)"),
    ("C11", "bec7bbe", "argmax / argmin did not return the first occurrence on ties (argmax([3, 1, 3, 2]) was 2, numpy gives 0); first recorded as known finding KF-C11-argmax-ties, then repaired with a tie-aware rank inside argmax / argmin (sortable_proxy stays a permutation)"),
    ("C03", "444a7be", "polynomial_from_attributes / polynomial(dict) stored the polynomial in the dtype of the first coefficient, truncating the others ([1, 2.5] gave 2*q0+1, [int8(1), 300] gave 44*q0+1); a side remark of two seeding sub-agents, reproduced once the constructor driver passed coefficient arrays of different dtypes (20 rejections)"),
    ("C02", "83f91b9", "evaluation depended on the numeric type carrying an argument: (q0**2 + q1)(numpy.int32(70000), 0) was 605032704 (the power overflowed in int32 before meeting the int64 coefficients), uint8(200) gave 64; a side remark of a seeding sub-agent, reproduced once the evaluation driver used values near the top of narrow numpy types (11 rejections)"),
    ("C03", "64ca5a4", "monomial over an empty index range in D > 1 dimensions returned an object whose storage key width (1) did not match its D names"),
]


def main():
    out = {"findings": FINDINGS,
           "fixed": ["fixed: property=%s %s %s" % f for f in FIXED]}
    path = os.path.join(os.path.dirname(os.path.dirname(os.path.abspath(__file__))), "known_findings.json")
    with open(path, "w") as fh:
        json.dump(out, fh, indent=1)
    print("wrote", path, len(FINDINGS), "open/other findings,", len(FIXED), "fixed")


if __name__ == "__main__":
    main()
