"""The action table: how an event (action name + JSON parameters) is performed
on the real numpoly.  Drivers, replay of TLC-generated programs, re-execution
of recorded traces (--replay) and the known-finding witnesses all go through
this table, so a recorded trace is executable from its own JSON."""
from __future__ import annotations

import operator

import numpy

from . import project as P

ACTIONS = {}


def action(name):
    def deco(fn):
        ACTIONS[name] = fn
        return fn
    return deco


def perform(act: str, params: dict, state: dict = None):
    """Return the callable taking the operand objects."""
    fn = ACTIONS[act]
    if getattr(fn, "_wants_state", False):
        return fn(params, state if state is not None else {"cms": []})
    return fn(params)


def stateful(fn):
    fn._wants_state = True
    return fn


# ------------------------------------------------------------ rebuilding inputs
def rebuild(proj: dict):
    """Real object from the projection logged by a `new` event."""
    kind = proj["kind"]
    if kind == "poly":
        spec = {"shape": proj["shape"], "names": proj["names"], "rows": proj["rows"],
                "coefs": [[P.unnum(c) for c in row] for row in proj["coefs"]], "dtype": proj["dtype"]}
        return P.build_poly(spec)
    if kind == "array":
        vals = [P.unnum(c) for c in proj["vals"]]
        arr = numpy.array(vals, dtype=proj["dtype"]).reshape(proj["shape"])
        car = proj.get("carrier", "ndarray")
        if car == "ndarray":
            return arr
        if car == "list":
            return arr.tolist()
        if car == "npscalar":
            return arr[()]
        if car.startswith("py"):
            return arr.item()
        return arr
    raise ValueError("cannot rebuild input of kind %r" % kind)


# -------------------------------------------------------------------- C01 ring
_NP_BIN = {"add": "add", "sub": "subtract", "mul": "multiply", "pow": "power"}
_OP_BIN = {"add": operator.add, "sub": operator.sub, "mul": operator.mul, "pow": operator.pow}
_NP_UN = {"neg": "negative", "pos": "positive", "square": "square"}
_OP_UN = {"neg": operator.neg, "pos": operator.pos, "square": lambda a: a ** 2}


@action("arith")
def _arith(p):
    import numpoly
    op, sp = p["op"], p.get("spelling", "operator")
    if sp == "operator":
        return _OP_BIN[op]
    return getattr(numpy if sp == "numpy" else numpoly, _NP_BIN[op])


@action("unary")
def _unary(p):
    import numpoly
    op, sp = p["op"], p.get("spelling", "operator")
    if sp == "operator":
        return _OP_UN[op]
    return getattr(numpy if sp == "numpy" else numpoly, _NP_UN[op])


# ----------------------------------------------------------------- C14 options
def _norm_opts(o):
    return {k: (v if isinstance(v, (bool, str)) else repr(v)) for k, v in sorted(o.items())}


def _kwargs(p):
    kw = dict(p.get("kw", {}))
    for b in p.get("bad", []):
        kw[b] = True
    return kw


@action("set_options")
def _set_options(p):
    import numpoly
    return lambda: numpoly.set_options(**_kwargs(p))


@action("enter")
@stateful
def _enter(p, state):
    import numpoly

    def run():
        cm = numpoly.global_options(**_kwargs(p))
        cm.__enter__()
        state["cms"].append(cm)
    return run


@action("exit")
@stateful
def _exit(p, state):
    def run():
        cm = state["cms"].pop()
        cm.__exit__(None, None, None)
    return run


@action("exit_exc")
@stateful
def _exit_exc(p, state):
    import builtins

    def run():
        cm = state["cms"].pop()
        exc_type = getattr(builtins, p["thrown"])
        try:
            raise exc_type("raised inside the with block")
        except exc_type as exc:
            if not cm.__exit__(type(exc), exc, exc.__traceback__):
                raise
    return run


@action("get_mutate")
def _get_mutate(p):
    import numpoly
    from .record import Extra

    def run():
        got = numpoly.get_options()
        seen = _norm_opts(got)
        for k in list(got):
            got[k] = "junk"
        got["extra"] = 1
        if p.get("clear"):
            got.clear()
        return Extra(None, seen=seen)
    return run


@action("get_defaults")
def _get_defaults(p):
    import numpoly
    from .record import Extra

    def run():
        got = numpoly.get_options(defaults=True)
        seen = _norm_opts(got)
        for k in list(got):
            got[k] = "junk"
        return Extra(None, seen=seen)
    return run
