SPECIFICATION Spec
CONSTANTS
  MaxTerms = 2
INVARIANT DisplayOrderTotal
CHECK_DEADLOCK FALSE
