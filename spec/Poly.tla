------------------------------- MODULE Poly -------------------------------
(***************************************************************************)
(* Element polynomials: the mathematical objects numpoly arrays contain.   *)
(*                                                                         *)
(* A monomial is a finite map  name -> positive exponent  (names are the   *)
(* numeric suffixes of q0, q1, q10 ...; the constant monomial is the empty *)
(* map).  A polynomial is a finite map  monomial -> non-zero Num.  Two     *)
(* polynomials are equal iff they are equal as TLA+ functions, so unused   *)
(* names, zero terms and term order are forgotten by construction.         *)
(***************************************************************************)
EXTENDS Num, FiniteSets, FiniteSetsExt, Functions, SequencesExt

MOne == <<>>                                       \* the monomial 1
MExp(m, n) == IF n \in DOMAIN m THEN m[n] ELSE 0
MNorm(f) == [n \in {x \in DOMAIN f : f[x] # 0} |-> f[n]]
MMul(a, b) == [n \in (DOMAIN a) \cup (DOMAIN b) |-> MExp(a, n) + MExp(b, n)]
MDeg(m) == FoldFunction(LAMBDA a, b : a + b, 0, m)
MDivides(a, b) == \A n \in DOMAIN a : a[n] <= MExp(b, n)      \* a | b
MQuot(b, a) == MNorm([n \in DOMAIN b |-> b[n] - MExp(a, n)])  \* b / a, a | b
MVar(n) == (n :> 1)

\* ------------------------------------------------------------- polynomials
EZero == <<>>
EAt(f, m) == IF m \in DOMAIN f THEN f[m] ELSE NZero
EClean(f) == [m \in {x \in DOMAIN f : ~NIsZero(f[x])} |-> f[m]]
EConst(c) == IF NIsZero(c) THEN EZero ELSE (MOne :> c)
ETerm(c, m) == IF NIsZero(c) THEN EZero ELSE (m :> c)
EIsConst(f) == DOMAIN f \subseteq {MOne}
EAdd(f, g) == IF f = EZero THEN g ELSE IF g = EZero THEN f
              ELSE EClean([m \in (DOMAIN f) \cup (DOMAIN g) |-> NAdd(EAt(f, m), EAt(g, m))])
ENeg(f) == [m \in DOMAIN f |-> NNeg(f[m])]
ESub(f, g) == EAdd(f, ENeg(g))
EScale(c, f) == IF NIsZero(c) THEN EZero ELSE EClean([m \in DOMAIN f |-> NMul(c, f[m])])
\* product: coefficient of m is the sum over all pairs multiplying to m
EMul(f, g) ==
  IF f = EZero \/ g = EZero THEN EZero
  ELSE LET pairs == (DOMAIN f) \X (DOMAIN g)
           ms == {MMul(p[1], p[2]) : p \in pairs}
       IN EClean([m \in ms |->
             FoldSet(LAMBDA p, acc : NAdd(acc, NMul(f[p[1]], g[p[2]])), NZero,
                     {p \in pairs : MMul(p[1], p[2]) = m})])
EOne == EConst(NOne)
RECURSIVE EPow(_, _)
EPow(f, n) == IF n = 0 THEN EOne ELSE IF n = 1 THEN f
              ELSE IF n % 2 = 0 THEN LET h == EPow(f, n \div 2) IN EMul(h, h)
              ELSE EMul(f, EPow(f, n - 1))
ESum(S) == FoldSet(LAMBDA f, acc : EAdd(acc, f), EZero, S)       \* S: set of polys (distinct!)
ESumSeq(s) == FoldLeft(LAMBDA acc, f : EAdd(acc, f), EZero, s)
EProdSeq(s) == FoldLeft(LAMBDA acc, f : EMul(acc, f), EOne, s)
ENames(f) == UNION {DOMAIN m : m \in DOMAIN f}

\* formal partial derivative with respect to name n
EDeriv(f, n) ==
  LET ms == {m \in DOMAIN f : MExp(m, n) > 0}
      Down(m) == MNorm([x \in DOMAIN m |-> IF x = n THEN m[x] - 1 ELSE m[x]])
  IN EClean([d \in {Down(m) : m \in ms} |->
        LET m == CHOOSE mm \in ms : Down(mm) = d IN NMul(NInt(m[n]), f[m])])

\* substitute polynomials for some names: sub is a map name -> polynomial
EMonoSubst(m, sub) ==
  LET keep == MNorm([n \in (DOMAIN m) \ (DOMAIN sub) |-> m[n]])
      hit == (DOMAIN m) \cap (DOMAIN sub)
  IN FoldSet(LAMBDA n, acc : EMul(acc, EPow(sub[n], m[n])), ETerm(NOne, keep), hit)
ESubst(f, sub) ==
  FoldSet(LAMBDA m, acc : EAdd(acc, EScale(f[m], EMonoSubst(m, sub))), EZero, DOMAIN f)

\* --------------------------------------------------------- monomial orders
\* dims: the ordered tuple of names that defines positions (ascending suffix).
\* Sort key of numpoly.glexsort, ascending:
\*   plain   : the LAST name is most significant     (numpy.lexsort semantics)
\*   reverse : the FIRST name is most significant
\*   graded  : total degree first, then as above
RECURSIVE LexLessFrom(_, _, _, _, _)
LexLessFrom(a, b, dims, j, step) ==      \* j walks from most to least significant
  IF j < 1 \/ j > Len(dims) THEN FALSE
  ELSE LET x == MExp(a, dims[j]) y == MExp(b, dims[j])
       IN IF x < y THEN TRUE ELSE IF x > y THEN FALSE
          ELSE LexLessFrom(a, b, dims, j + step, step)
MLess(a, b, dims, graded, reverse) ==
  LET lex == IF reverse THEN LexLessFrom(a, b, dims, 1, 1)
                        ELSE LexLessFrom(a, b, dims, Len(dims), -1)
  IN IF graded /\ MDeg(a) # MDeg(b) THEN MDeg(a) < MDeg(b) ELSE lex
MMax(S, dims, graded, reverse) ==
  CHOOSE m \in S : \A x \in S : x = m \/ MLess(x, m, dims, graded, reverse)

\* leading monomial (largest with non-zero coefficient); MOne for the zero polynomial
ELeadMono(f, dims, graded, reverse) ==
  IF f = EZero THEN MOne ELSE MMax(DOMAIN f, dims, graded, reverse)
ELeadCoef(f, dims, graded, reverse) ==
  IF f = EZero THEN NZero ELSE f[ELeadMono(f, dims, graded, reverse)]
\* the documented total order: sign of the coefficient difference at the largest
\* monomial where the two differ
ECmp(f, g, dims, graded, reverse) ==
  LET d == ESub(f, g)
  IN IF d = EZero THEN 0 ELSE NSign(d[MMax(DOMAIN d, dims, graded, reverse)])
=============================================================================
