SPECIFICATION Spec
CONSTANTS
  MaxDepth = 2
  MaxLen = 4
  NKeys = 3
VIEW view
INVARIANT TypeOK
INVARIANT OutermostIsBase
INVARIANT UnmodelledKeysConstant
PROPERTY RestoreOnExit
PROPERTY RestoreToBase
PROPERTY BadKeyChangesNothing
PROPERTY OnlyGivenKeysChange
PROPERTY EnterPushes
PROPERTY ReadsChangeNothing
CHECK_DEADLOCK FALSE
