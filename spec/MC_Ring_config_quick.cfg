SPECIFICATION Spec
CONSTANTS
  MaxSeeds = 2
  MaxOps = 1
  Universe = "config"
INVARIANT Commutative
INVARIANT Identities
INVARIANT PowerLaws
INVARIANT ShapeLaw
CHECK_DEADLOCK FALSE
