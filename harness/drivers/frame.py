"""C17 driver: calls on already aligned operands (internal aliasing possible),
calls that raise, copyto with masks; every live register is snapshotted before
and after every call (digests in the event), whether the call returned or raised."""
from __future__ import annotations

import random

import numpy

from .. import gen
from ..actions import _any_calls
from ..project import build_poly
from ..record import Recorder, reset_options

ONE = ["reshape_bad", "transpose_bad", "tonumpy", "call_bad", "getitem_bad", "np_sort", "np_linalg_inv", "np_arctan",
       "reduceat", "derivative0", "gradient", "where1", "nonzero", "count_nonzero", "any_all", "absolute", "around",
       "rounding", "isfinite", "ones_zeros_like", "str_repr", "pickle", "copy", "properties", "astype_float",
       "sum_mean", "max_min", "sortable_proxy", "lead", "apply_along_axis", "set_dimensions", "decompose", "to_sympy",
       "roots"]
TWO = ["concatenate_bad", "true_divide", "floor_divide", "np_remainder", "add_bad_shape", "outer_method", "divmod",
       "poly_divide", "mod", "equal", "not_equal", "isclose", "allclose", "logical", "result_type"]


def one_trace(rng, tid, prop):
    reset_options()
    rec = Recorder(tid, prop, timeout_s=5.0)
    kind = rng.choice(["int", "int", "float"])
    base = rng.choice([(), (2,), (2, 2), (1, 2), (3,)])
    names = gen.rand_names(rng, 1, 2, pool=(0, 1, 2))
    regs = []
    for i in range(2):
        shape = base if i == 0 else gen.broadcast_partner(rng, base)
        spec = gen.rand_poly_spec(rng, shape=shape, names=names, kind=kind, max_terms=3, max_exp=2, min_terms=1)
        regs.append(rec.new(build_poly(spec)))
    regs.append(rec.new(gen.rand_numeric(rng, gen.broadcast_partner(rng, base), kind)))
    # already aligned operands: numpoly may hand the very same objects on internally
    aligned = rec.do("align", regs[:2], fn="align_polynomials", prop="C04")
    if aligned:
        regs.extend(aligned)
    for _ in range(rng.randint(6, 12)):
        c = rng.random()
        if c < 0.2 and aligned:
            a, b = rng.choice(aligned), rng.choice(aligned)
            rec.do("arith", [a, b], keep=False, op=rng.choice(["add", "sub", "mul"]), spelling=rng.choice(["operator", "numpy", "numpoly"]), prop="C01")
        elif c < 0.3 and aligned:
            a, b = rng.choice(aligned), rng.choice(aligned)
            rec.do("compare", [a, b], keep=False, op=rng.choice(["eq", "ne", "lt", "ge"]), spelling=rng.choice(["operator", "numpy", "numpoly"]), prop="C07")
        elif c < 0.45:
            # copyto: make the key sets compatible first, then copy (optionally under a mask)
            dst0, src0 = rng.choice(regs[:2] + aligned), rng.choice(regs[:2] + aligned)
            pair = rec.do("align", [dst0, src0], fn="align_exponents", prop="C04")
            if len(pair) == 2:
                dshape = rec.obj(pair[0]).shape
                sshape = rec.obj(pair[1]).shape
                ok = True
                try:
                    ok = numpy.broadcast_shapes(dshape, sshape) == tuple(dshape)
                except ValueError:
                    ok = False
                if ok:
                    size = int(numpy.prod(dshape, dtype=int))
                    mask = [rng.random() < 0.5 for _ in range(size)] if rng.random() < 0.5 else []
                    # what copyto writes is growth (no listed property claims it); that it writes ONLY its target is C17's frame clause
                    rec.do("copyto", pair, targets=[pair[0]], keep=False, mask=mask, spelling=rng.choice(["numpoly", "numpy"]), prop="GROW")
        elif c < 0.75:
            rec.do("any", [rng.choice(regs)], keep=False, name=rng.choice(ONE))
        else:
            rec.do("any", [rng.choice(regs), rng.choice(regs)], keep=False, name=rng.choice(TWO))
    return rec.to_json()


def generate(seed, n, prop="C17", start=0, **kw):
    out = []
    for i in range(start, start + n):
        rng = random.Random("frame/%d/%d" % (seed, i))
        out.append(one_trace(rng, "%s-frame-s%d-%05d" % (prop, seed, i), prop, **kw))
    return out
