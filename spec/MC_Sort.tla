------------------------------ MODULE MC_Sort ------------------------------
(***************************************************************************)
(* Bounded model for C18: every key matrix of a small universe and every   *)
(* parameter vector of the index generators.  TLC checks that the          *)
(* specification's order is a strict total order on the universe (so       *)
(* "sorted" is well defined) and basic laws of the index sets; the         *)
(* enumerated vectors are replayed on glexsort / glexindex / bindex /      *)
(* cross_truncate / monomial and judged by Trace.tla.                      *)
(***************************************************************************)
EXTENDS Monomial

CONSTANTS Rows, Cols, MaxEntry, MaxDim, MaxBound

VARIABLES vec
Flags == BOOLEAN \X BOOLEAN
Norms == {"0", "1", "2", "inf"}
RowSet == [1..Cols -> 0..MaxEntry]
Quads == {<<"1", "1">>, <<"0", "0">>, <<"2", "2">>, <<"inf", "inf">>, <<"inf", "1">>}

Init == vec = [kind |-> "none"]
\* two steps (first the first key row / the dimension and start, then the rest), quantifying directly over the function
\* sets: the universe of the thorough tier has more than 10^6 vectors, which TLC refuses to build as one set, and all
\* successors of one state are computed by a single worker
Next ==
  \/ vec.kind = "none" /\ \E r \in RowSet : vec' = [kind |-> "keyrow", row |-> r]
  \/ vec.kind = "keyrow" /\ \E m \in [2..Rows -> RowSet], f \in Flags :
        vec' = [kind |-> "glexsort", keys |-> [i \in 1..Rows |-> IF i = 1 THEN vec.row ELSE m[i]],
                graded |-> f[1], reverse |-> f[2]]
  \/ vec.kind = "none" /\ \E d \in 1..MaxDim : \E s \in [1..d -> 0..MaxBound] : vec' = [kind |-> "start", start |-> s]
  \/ vec.kind = "start" /\ \E t \in [1..Len(vec.start) -> 1..MaxBound], q \in Quads, f \in Flags :
        vec' = [kind |-> "glexindex", start |-> vec.start, stop |-> t, qlow |-> q[1], qup |-> q[2],
                graded |-> f[1], reverse |-> f[2]]
Spec == Init /\ [][Next]_vec

\* ------------------------------------------------------------------ laws
Columns(m) == [c \in 1..Cols |-> [r \in 1..Rows |-> m[r][c]]]
\* the order on key columns is a strict total order: irreflexive, total, transitive
OrderIsStrictTotal ==
  vec.kind = "glexsort" =>
    LET cs == {Columns(vec.keys)[c] : c \in 1..Cols}
        L(a, b) == TLess(a, b, vec.graded, vec.reverse)
    IN /\ \A a \in cs : ~L(a, a)
       /\ \A a, b \in cs : a = b \/ L(a, b) \/ L(b, a)
       /\ \A a, b, c \in cs : (L(a, b) /\ L(b, c)) => L(a, c)
\* index sets: nothing below start, everything inside the bounding box, inf-norm set is the box
IndexSetLaws ==
  vec.kind = "glexindex" =>
    LET S == GlexIndexSet(vec.start, vec.stop, vec.qlow, vec.qup)
        d == Len(vec.stop)
    IN /\ \A e \in S : \A j \in 1..d : e[j] <= SeqMax(vec.stop) - 1
       /\ (d = 1 => S = {<<x>> : x \in {y \in 0..(vec.stop[1] - 1) : y >= vec.start[1]}})
       /\ ((d > 1 /\ vec.qup = "inf" /\ vec.qlow = "inf") =>
              S = {e \in [1..d -> 0..(SeqMax(vec.stop) - 1)] :
                     (\A j \in 1..d : e[j] <= vec.stop[j] - 1) /\ ~(\A j \in 1..d : e[j] <= vec.start[j] - 1)})
       /\ GlexIndexSet(vec.start, vec.stop, "0", vec.qup) \subseteq GlexIndexSet([j \in 1..d |-> 0], vec.stop, "0", vec.qup)
=============================================================================
