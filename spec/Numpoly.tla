------------------------------ MODULE Numpoly ------------------------------
(***************************************************************************)
(* The numpoly workspace machine: one judgment per public call.            *)
(*                                                                         *)
(* State (held by the caller: spec/Trace.tla for recorded executions, the  *)
(* MC_* modules for bounded exploration):                                  *)
(*   reg   SSA registers; reg[i] = [v |-> raw observation, d |-> its       *)
(*         denotation, dg |-> digest of everything C17 freezes]            *)
(*   opts  the option record,  ctx  the stack of open global_options blocks*)
(*                                                                         *)
(* An event ev is one public call: ev.act (action), ev.args (operand       *)
(* registers), parameters, ev.out ("ret" | "raise" | "timeout"), ev.res    *)
(* (sequence of result observations), ev.digests (digest of every earlier  *)
(* register after the call), ev.targets (registers the call may write),    *)
(* ev.opts (option record after the call).                                 *)
(*                                                                         *)
(* Judge(ev, reg, opts, ctx) evaluates the postcondition of the action as  *)
(* named clauses.  Own(...) is "ok" or the first failed clause of the      *)
(* action's own postcondition; the global clauses (well-formedness C03,    *)
(* no-poison C12, frame C17, options C14) are evaluated on every event.    *)
(***************************************************************************)
EXTENDS PolyArray, Options, TLC

HasDen(v) == v.kind \in {"poly", "array"}
MkReg(v) == [v |-> v, d |-> IF HasDen(v) /\ WellFormed(v) THEN Den(v) ELSE <<>>, dg |-> v.digest]
RangeOf(s) == {s[i] : i \in 1..Len(s)}

\* ----------------------------------------------------------- result clauses
ExpectRaise(ev, exc) ==
  IF ev.out = "raise" THEN (IF exc \in RangeOf(ev.res[1].mro) THEN "ok" ELSE "wrong_exception")
  ELSE IF ev.out = "timeout" THEN "timeout" ELSE "no_raise"
\* kind: "poly" | "array" | "any"
ExpectDenAt(ev, i, kind, exp) ==
  IF ev.out = "raise" THEN "raised" ELSE IF ev.out = "timeout" THEN "timeout"
  ELSE IF Len(ev.res) < i THEN "arity"
  ELSE LET r == ev.res[i]
       IN IF ~HasDen(r) THEN "type"
          ELSE IF kind # "any" /\ r.kind # kind THEN "type"
          ELSE IF r.shape # exp.shape THEN "shape"
          ELSE IF Den(r).el # exp.el THEN "value" ELSE "ok"
ExpectDen(ev, kind, exp) == ExpectDenAt(ev, 1, kind, exp)
First(clauses) ==     \* first clause that is not "ok"
  LET bad == SelectSeq(clauses, LAMBDA c : c # "ok") IN IF bad = <<>> THEN "ok" ELSE bad[1]

\* ------------------------------------------------------------- C01 ring ops
ArithDen(op, a, b) == DArith(op, a, b)
JArith(ev, reg) ==
  LET a == reg[ev.args[1]].d  b == reg[ev.args[2]].d
  IN IF ~BroadcastOK2(a.shape, b.shape) THEN "ok"     \* outside the property's quantifier: nothing is claimed
     ELSE IF ev.op = "pow" /\ ~(\A k \in 1..Len(b.el) : IsNatConst(b.el[k])) THEN "precondition"
     ELSE ExpectDen(ev, "poly", ArithDen(ev.op, a, b))
JUnary(ev, reg) ==
  LET a == reg[ev.args[1]].d
  IN ExpectDen(ev, "poly", CASE ev.op = "neg" -> DNeg(a) [] ev.op = "pos" -> a
                                [] ev.op = "square" -> DMul(a, a))

\* ------------------------------------------ C09 shape functions and indexing
\* ev.gather: what numpy does with the positions (observed on label arrays);
\* ev.model: parameters for the specification's own gather map (core subset)
ModelGather(m, ss) ==
  CASE m.fn = "reshape" -> GReshape(ss[1], m.shape)
    [] m.fn = "transpose" -> GTranspose(ss[1], m.perm)
    [] m.fn = "concat" -> GConcat(ss, m.axis)
    [] m.fn = "index" -> GIndex(ss[1], m.items)
SameDType(ev, reg) ==      \* the common dtype of the polynomial operands, if there is one
  LET ds == {reg[ev.args[i]].v.dtype : i \in 1..Len(ev.args)}
  IN IF Cardinality(ds) = 1 THEN CHOOSE d \in ds : TRUE ELSE ""
OperandNames(ev, reg) ==
  UNION {IF reg[ev.args[i]].v.kind = "poly" THEN RangeOf(reg[ev.args[i]].v.names) ELSE {} : i \in 1..Len(ev.args)}
JMove(ev, reg, opts) ==
  LET ds == [i \in 1..Len(ev.args) |-> reg[ev.args[i]].d]
      ss == [i \in 1..Len(ev.args) |-> ds[i].shape]
      dt == SameDType(ev, reg)
  IN IF ev.out = "raise" THEN "raised" ELSE IF ev.out = "timeout" THEN "timeout"
     ELSE IF Len(ev.res) # Len(ev.gather) THEN "arity"
     ELSE IF \E i \in 1..Len(ev.gather) : ~GatherOK(ev.gather[i], ss) THEN "machinery_gather"
     ELSE IF ev.model # <<>> /\ ModelGather(ev.model[1], ss) # ev.gather[1] THEN "machinery_gather_model"
     ELSE First([i \in 1..Len(ev.gather) |->
            LET own == ExpectDenAt(ev, i, "poly", DGather(ev.gather[i], ds))
                r == ev.res[i]
            IN IF own # "ok" THEN own
               ELSE IF dt # "" /\ r.dtype # dt THEN "dtype"
               ELSE IF ~(RangeOf(r.names) \subseteq OperandNames(ev, reg)) THEN "names"
               ELSE IF opts.retain_names /\ Len(ev.args) = 1 /\ r.names # reg[ev.args[1]].v.names THEN "names"
               ELSE "ok"])

\* ------------------------------------------------ C10 reductions, linear algebra
\* ev.axes: the axes given (possibly negative); ev.axis_none: no axis given
AxesOf(ev, nd) == IF ev.axis_none THEN 0..(nd - 1) ELSE {NormAxis(ev.axes[i], nd) : i \in 1..Len(ev.axes)}
OptArg(ev, reg, flag, pos) == IF flag THEN <<reg[ev.args[pos]].d>> ELSE <<>>
JReduce(ev, reg) ==
  LET a == reg[ev.args[1]].d
      nd == Len(a.shape)
  IN CASE ev.fn = "sum" -> ExpectDen(ev, "poly", DSumAxes(a, AxesOf(ev, nd), ev.keepdims))
       [] ev.fn = "prod" -> ExpectDen(ev, "poly", DProdAxes(a, AxesOf(ev, nd), ev.keepdims))
       [] ev.fn = "cumsum" ->
            ExpectDen(ev, "poly", IF ev.axis_none THEN DCumSumAxis(DRavel(a), 0)
                                  ELSE DCumSumAxis(a, NormAxis(ev.axes[1], nd)))
       [] ev.fn = "mean" ->
            LET A == AxesOf(ev, nd)
                s == DSumAxes(a, A, ev.keepdims)
                cnt == Size([j \in 1..nd |-> IF (j - 1) \in A THEN a.shape[j] ELSE 1])
            IN IF ev.out # "ret" THEN "raised"
               ELSE IF ~HasDen(ev.res[1]) \/ ev.res[1].kind # "poly" THEN "type"
               ELSE IF ev.res[1].shape # s.shape THEN "shape"
               ELSE LET r == Den(ev.res[1])
                    IN IF \A k \in 1..Len(s.el) : EClose(EScale(NInt(cnt), r.el[k]), s.el[k], 40)
                       THEN "ok" ELSE "value"
       [] ev.fn = "diff" ->
            LET ax == NormAxis(ev.axes[1], nd)
                pre == OptArg(ev, reg, ev.has_pre, 2)
                app == OptArg(ev, reg, ev.has_app, IF ev.has_pre THEN 3 ELSE 2)
            IN ExpectDen(ev, "poly", DDiff(a, ev.n, ax, pre, app))
       [] ev.fn = "ediff1d" ->
            LET bg == OptArg(ev, reg, ev.has_pre, 2)
                en == OptArg(ev, reg, ev.has_app, IF ev.has_pre THEN 3 ELSE 2)
            IN ExpectDen(ev, "poly", DEDiff1d(a, bg, en))
       [] ev.fn = "inner" ->
            LET b == reg[ev.args[2]].d
            IN IF Len(a.shape) # 1 \/ b.shape # a.shape THEN "ok"       \* only vectors are claimed
               ELSE ExpectDen(ev, "poly", DInnerVec(a, b))
       [] ev.fn = "outer" -> ExpectDen(ev, "poly", DOuter(a, reg[ev.args[2]].d))
       [] ev.fn = "matmul" ->
            LET b == reg[ev.args[2]].d
            IN IF ~MatMulOK(a.shape, b.shape) THEN "ok" ELSE ExpectDen(ev, "poly", DMatMul(a, b))
       [] ev.fn = "det" ->
            IF nd < 2 \/ a.shape[nd] # a.shape[nd - 1] THEN "ok" ELSE ExpectDen(ev, "poly", DDet(a))

\* -------------------------------------------------------------- C14 options
OptAct(ev) == ev.act \in {"set_options", "enter", "exit", "exit_exc", "get_mutate", "get_defaults"}
NextOpts(ev, opts, ctx) ==
  CASE ev.act = "set_options" -> SetOptionsOpts(opts, ev.kw, ev.bad)
    [] ev.act = "enter" -> EnterOpts(opts, ev.kw, ev.bad)
    [] ev.act \in {"exit", "exit_exc"} -> ExitOpts(opts, ctx)
    [] OTHER -> opts
NextCtx(ev, opts, ctx) ==
  CASE ev.act = "enter" -> EnterCtx(opts, ctx, ev.kw, ev.bad)
    [] ev.act \in {"exit", "exit_exc"} -> ExitCtx(ctx)
    [] OTHER -> ctx
JOption(ev, opts, ctx) ==
  CASE ev.act \in {"set_options", "enter"} ->
         IF SetOptionsOK(ev.kw, ev.bad) THEN (IF ev.out = "ret" THEN "ok" ELSE "raised")
         ELSE ExpectRaise(ev, "KeyError")
    [] ev.act = "exit" -> IF ev.out = "ret" THEN "ok" ELSE "raised"
    [] ev.act = "exit_exc" -> ExpectRaise(ev, ev.thrown)     \* the exception propagates
    [] ev.act = "get_mutate" -> IF ev.out = "ret" /\ ev.seen = opts THEN "ok" ELSE "copy"
    [] ev.act = "get_defaults" -> IF ev.out = "ret" /\ ev.seen = DefaultOptions THEN "ok" ELSE "defaults"

\* ------------------------------------------------------------------ dispatch
NeedsDen(ev) == ev.act \in {"arith", "unary", "move", "reduce"}
Own(ev, reg, opts, ctx) ==
  CASE ev.act = "new" -> "ok"
    [] \E i \in 1..Len(ev.args) : ev.args[i] \notin 1..Len(reg) -> "machinery_operand"
    [] NeedsDen(ev) /\ \E i \in 1..Len(ev.args) : reg[ev.args[i]].d = <<>> -> "machinery_operand"
    [] ev.act = "arith" -> JArith(ev, reg)
    [] ev.act = "unary" -> JUnary(ev, reg)
    [] ev.act = "move" -> JMove(ev, reg, opts)
    [] ev.act = "reduce" -> JReduce(ev, reg)
    [] OptAct(ev) -> JOption(ev, opts, ctx)
    [] OTHER -> "unknown_action"

\* ------------------------------------------------------------ global clauses
WfAll(ev) ==
  IF ev.out # "ret" THEN "ok"
  ELSE First([i \in 1..Len(ev.res) |-> WellFormedClause(ev.res[i])])
PoisonAll(ev) ==
  IF \E i \in 1..Len(ev.res) : ev.res[i].poison THEN "poison" ELSE "ok"
FrameAll(ev, reg) ==
  IF Len(ev.digests) # Len(reg) THEN "register_count"
  ELSE LET bad == {i \in 1..Len(reg) : i \notin RangeOf(ev.targets) /\ ev.digests[i] # reg[i].dg}
       IN IF bad = {} THEN "ok" ELSE "reg" \o ToString(CHOOSE i \in bad : \A j \in bad : i <= j)
OptionsAll(ev, opts, ctx) == IF ev.opts = NextOpts(ev, opts, ctx) THEN "ok" ELSE "mismatch"

Judge(ev, reg, opts, ctx) ==
  LET wf == WfAll(ev)
  IN [wf |-> wf,
      poison |-> PoisonAll(ev),
      own |-> IF wf = "ok" THEN Own(ev, reg, opts, ctx) ELSE "ok",
      frame |-> FrameAll(ev, reg),
      options |-> OptionsAll(ev, opts, ctx),
      abort |-> wf # "ok"]

NextReg(ev, reg) ==
  LET upd == [i \in 1..Len(reg) |-> IF i \in RangeOf(ev.targets)
                                     THEN [reg[i] EXCEPT !.dg = ev.digests[i]] ELSE reg[i]]
  IN IF ev.out = "ret" /\ ev.kept
     THEN upd \o [i \in 1..Len(ev.res) |-> MkReg(ev.res[i])]
     ELSE upd
=============================================================================
