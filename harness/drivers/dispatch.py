"""C08 driver: (a) the spellings of registered functions return the same result;
(b) every other overridable numpy function, ufunc and ufunc method raises
FeatureNotSupported when given a polynomial."""
from __future__ import annotations

import random

import numpy

from .. import gen
from ..actions import overridable_functions, public_ufuncs, reduce_fields, gather_map
from ..project import build_poly
from ..record import Recorder, reset_options

METHODS = ["reduce", "accumulate", "outer", "at", "reduceat"]


def probe_list():
    items = [("function", name, "__call__") for name in overridable_functions()]
    for name, uf in public_ufuncs().items():
        items.append(("ufunc", name, "__call__"))
        if uf.nin == 2 and uf.nout == 1 and uf.signature is None:      # numpy defines the methods for these only
            for m in METHODS:
                items.append(("ufunc", name, m))
    return items


def spelling_pairs(rng, rec, a, b):
    """One registered operation through two spellings, then `same`."""
    c = rng.random()
    if c < 0.3:
        op = rng.choice(["add", "sub", "mul"])
        s1, s2 = rng.sample(["operator", "numpy", "numpoly"], 2)
        ops = [a, b]
        if rng.random() < 0.5:
            # a numeric operand in any carrier numpy accepts (python / numpy scalars incl. booleans, lists, tuples, arrays)
            shape = gen.broadcast_partner(rng, rec.obj(a).shape)
            ops = [a, rec.new(gen.rand_numeric(rng, shape, rng.choice(["int", "float", "bool", "bool"])), note="numeric")]
            if rng.random() < 0.4:
                ops.reverse()
        x = rec.do("arith", ops, op=op, spelling=s1, prop="C08")
        y = rec.do("arith", ops, op=op, spelling=s2, prop="C08")
    elif c < 0.45:
        op = rng.choice(["neg", "pos", "square"])
        s1, s2 = rng.sample(["operator", "numpy", "numpoly"], 2)
        x = rec.do("unary", [a], op=op, spelling=s1, prop="C08")
        y = rec.do("unary", [a], op=op, spelling=s2, prop="C08")
    elif c < 0.6:
        op = rng.choice(["lt", "le", "gt", "ge", "eq", "ne"])
        s1, s2 = rng.sample(["operator", "numpy", "numpoly"], 2)
        x = rec.do("compare", [a, b], op=op, spelling=s1, prop="C08")
        y = rec.do("compare", [a, b], op=op, spelling=s2, prop="C08")
    elif c < 0.8:
        if rng.random() < 0.3:
            # whole-array extrema in two spellings, with and without keepdims (seed C08f: the method dropped keepdims)
            fn = rng.choice(["amax", "amin"])
            kd = rng.random() < 0.6
            s1, s2 = rng.sample(["numpoly", "numpy", "method"], 2)
            for sp in (s1, s2):
                rec.do("lead", [a], keep=False, fn=fn, spelling=sp, graded=False, reverse=False, keepdims=kd, prop="C08")
            return
        fn = rng.choice(["sum", "prod", "cumsum", "mean"])
        nd = rec.obj(a).ndim
        if nd == 0:
            return
        p = {"axis": rng.randrange(-nd, nd)}
        sps = {"sum": ["numpoly", "numpy", "method", "reduce"], "prod": ["numpoly", "numpy", "method", "reduce"],
               "cumsum": ["numpoly", "numpy", "method", "accumulate"], "mean": ["numpoly", "numpy", "method"]}[fn]
        if fn == "prod" and rec.obj(a).size > 6:
            fn, sps = "sum", ["numpoly", "numpy", "method", "reduce"]
        s1, s2 = rng.sample(sps, 2)
        f = reduce_fields(fn, p)
        x = rec.do("reduce", [a], fn=fn, p=p, spelling=s1, prop="C08", **f)
        y = rec.do("reduce", [a], fn=fn, p=p, spelling=s2, prop="C08", **f)
    else:
        fn, p = rng.choice([("transpose", {"axes": "none"}), ("reshape", {"shape": [-1]}), ("ravel", {}), ("expand_dims", {"axis": 0}),
                            ("repeat", {"repeats": 2, "axis": 0}), ("tile", {"reps": 2}), ("atleast_2d", {})])
        if fn == "repeat" and rec.obj(a).ndim == 0:
            return
        sps = ["numpoly", "numpy"]
        names = {"transpose": ["transpose", "transpose_method"], "reshape": ["reshape", "reshape_method"]}.get(fn, [fn])
        shape = rec.obj(a).shape
        outs = []
        for sp, nm in ((sps[0], names[0]), (sps[1], names[-1])):
            params = {"fn": nm, "p": p, "spelling": sp}
            outs.append(rec.do("move", [a], gather=gather_map(params, [shape]), model=[], prop="C08", **params))
        x, y = outs
    if x and y:
        rec.do("same", [x[0], y[0]], keep=False)


def registry_trace(rng, tid, prop, names):
    """The numpy spelling and the numpoly implementation of registered functions on one operand set."""
    from ..actions import spell_templates
    from .shape import distinct_poly_spec
    reset_options()
    rec = Recorder(tid, prop, timeout_s=20.0)
    kind = rng.choice(["int", "int", "float"])
    nm = rng.choice([(0, 1), (0,), (1, 2)])
    a = rec.new(build_poly(distinct_poly_spec(rng, (2, 2), names=nm, kind=kind)))
    b = rec.new(build_poly(distinct_poly_spec(rng, (2, 2), names=rng.choice([nm, (0, 2)]), kind=kind, tag=3)))
    v = rec.new(build_poly(distinct_poly_spec(rng, (2,), names=nm, kind=kind)))
    w = rec.new(build_poly(distinct_poly_spec(rng, (2,), names=nm, kind=kind, tag=5)))
    t = rec.new(build_poly(distinct_poly_spec(rng, (2, 2, 2), names=nm, kind=kind)))
    s = rec.new(build_poly(distinct_poly_spec(rng, (), names=nm, kind=kind, tag=7)))
    cvals = [rng.choice([-3, -1, 0, 2, 5] if kind == "int" else [-2.5, -0.5, 0.0, 1.5, 2.25]) for _ in range(4)]
    c = rec.new(build_poly({"shape": [2, 2], "names": [0], "rows": [[0]], "coefs": [cvals], "dtype": gen.dtype_of(kind)}))
    d = rec.new(build_poly({"shape": [2, 2], "names": [0], "rows": [[0]], "coefs": [[rng.choice([1, 2, 3]) for _ in range(4)]],
                            "dtype": "int64"}))
    templates = spell_templates()
    for name in names:
        for variant in (name, name + "#poly"):
            if variant in templates:
                rec.do("spell", [a, b, v, w, t, s, c, d], keep=False, fn=variant, np=[], np_out="ret")
    return rec.to_json()


def registered_names():
    import numpoly
    return sorted({k.__name__ for k in numpoly.FUNCTION_COLLECTION})


def one_trace(rng, tid, prop, probes=None):
    reset_options()
    rec = Recorder(tid, prop, timeout_s=20.0)
    kind = rng.choice(["int", "float"])
    shape = rng.choice([(2,), (3,), (2, 2), (2, 3)])
    names = gen.rand_names(rng, 1, 2, pool=(0, 1, 2))
    a = rec.new(build_poly(gen.rand_poly_spec(rng, shape=shape, names=names, kind=kind, max_terms=3, max_exp=2, min_terms=1)))
    b = rec.new(build_poly(gen.rand_poly_spec(rng, shape=gen.broadcast_partner(rng, shape), names=names, kind=kind,
                                              max_terms=3, max_exp=2, min_terms=1)))
    for _ in range(rng.randint(2, 4)):
        spelling_pairs(rng, rec, a, b)
    items = probes if probes is not None else rng.sample(probe_list(), 6)
    for kind_, name, method in items:
        rec.do("unsupported", [a], keep=False, kind=kind_, name=name, method=method, registered=False, dispatched=True)
    return rec.to_json()


def generate(seed, n, prop="C08", start=0, total=None, **kw):
    """With `total` given, the whole probe list is covered once across traces 0..total-1."""
    out = []
    allp = probe_list()
    for i in range(start, start + n):
        rng = random.Random("dispatch/%d/%d" % (seed, i))
        if kw.get("registry"):
            names = registered_names()
            per = 6
            chunk = names[(i * per) % len(names):(i * per) % len(names) + per]
            out.append(registry_trace(rng, "%s-registry-s%d-%05d" % (prop, seed, i), prop, chunk))
            continue
        probes = None
        if total:
            per = (len(allp) + total - 1) // total
            probes = allp[i * per:(i + 1) * per]
        out.append(one_trace(rng, "%s-dispatch-s%d-%05d" % (prop, seed, i), prop, probes=probes))
    return out
