SPECIFICATION Spec
CONSTANTS
  MaxTerms = 3
INVARIANT DisplayOrderTotal
CHECK_DEADLOCK FALSE
