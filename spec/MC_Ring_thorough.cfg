SPECIFICATION Spec
CONSTANTS
  MaxSeeds = 2
  MaxOps = 1
  Universe = "thorough"
INVARIANT Commutative
INVARIANT Associative
INVARIANT Distributive
INVARIANT Identities
INVARIANT PowerLaws
INVARIANT ShapeLaw
CHECK_DEADLOCK FALSE
