"""The action table: how an event (action name + JSON parameters) is performed
on the real numpoly.  Drivers, replay of TLC-generated programs, re-execution
of recorded traces (--replay) and the known-finding witnesses all go through
this table, so a recorded trace is executable from its own JSON."""
from __future__ import annotations

import operator

import numpy

from . import project as P

ACTIONS = {}


def action(name):
    def deco(fn):
        ACTIONS[name] = fn
        return fn
    return deco


def perform(act: str, params: dict, state: dict = None):
    """Return the callable taking the operand objects."""
    fn = ACTIONS[act]
    if getattr(fn, "_wants_state", False):
        return fn(params, state if state is not None else {"cms": []})
    return fn(params)


def stateful(fn):
    fn._wants_state = True
    return fn


# ------------------------------------------------------------ rebuilding inputs
def rebuild(proj: dict):
    """Real object from the projection logged by a `new` event."""
    kind = proj["kind"]
    if kind == "poly":
        spec = {"shape": proj["shape"], "names": proj["names"], "rows": proj["rows"],
                "coefs": [[P.unnum(c) for c in row] for row in proj["coefs"]], "dtype": proj["dtype"]}
        return P.build_poly(spec)
    if kind == "array":
        vals = [P.unnum(c) for c in proj["vals"]]
        arr = numpy.array(vals, dtype=proj["dtype"]).reshape(proj["shape"])
        car = proj.get("carrier", "ndarray")
        if car == "ndarray":
            return arr
        if car == "list":
            return arr.tolist()
        if car == "tuple":
            return tuple(arr.tolist())
        if car == "npscalar":
            return arr[()]
        if car.startswith("py"):
            return arr.item()
        return arr
    raise ValueError("cannot rebuild input of kind %r" % kind)


# -------------------------------------------------------------------- C01 ring
_NP_BIN = {"add": "add", "sub": "subtract", "mul": "multiply", "pow": "power"}
_OP_BIN = {"add": operator.add, "sub": operator.sub, "mul": operator.mul, "pow": operator.pow}
_NP_UN = {"neg": "negative", "pos": "positive", "square": "square"}
_OP_UN = {"neg": operator.neg, "pos": operator.pos, "square": lambda a: a ** 2}


@action("arith")
def _arith(p):
    import numpoly
    op, sp = p["op"], p.get("spelling", "operator")
    if sp == "operator":
        return _OP_BIN[op]
    return getattr(numpy if sp == "numpy" else numpoly, _NP_BIN[op])


@action("unary")
def _unary(p):
    import numpoly
    op, sp = p["op"], p.get("spelling", "operator")
    if sp == "operator":
        return _OP_UN[op]
    return getattr(numpy if sp == "numpy" else numpoly, _NP_UN[op])


# ----------------------------------------------------------------- C14 options
def _norm_opts(o):
    return {k: (v if isinstance(v, (bool, str)) else repr(v)) for k, v in sorted(o.items())}


def _kwargs(p):
    kw = dict(p.get("kw", {}))
    for b in p.get("bad", []):
        kw[b] = True
    return kw


@action("set_options")
def _set_options(p):
    import numpoly
    return lambda: numpoly.set_options(**_kwargs(p))


@action("enter")
@stateful
def _enter(p, state):
    import numpoly

    def run():
        cm = numpoly.global_options(**_kwargs(p))
        cm.__enter__()
        state["cms"].append(cm)
    return run


@action("exit")
@stateful
def _exit(p, state):
    def run():
        cm = state["cms"].pop()
        cm.__exit__(None, None, None)
    return run


@action("exit_exc")
@stateful
def _exit_exc(p, state):
    import builtins

    def run():
        cm = state["cms"].pop()
        exc_type = getattr(builtins, p["thrown"])
        try:
            raise exc_type("raised inside the with block")
        except exc_type as exc:
            if not cm.__exit__(type(exc), exc, exc.__traceback__):
                raise
    return run


@action("get_mutate")
def _get_mutate(p):
    import numpoly
    from .record import Extra

    def run():
        got = numpoly.get_options()
        seen = _norm_opts(got)
        for k in list(got):
            got[k] = "junk"
        got["extra"] = 1
        if p.get("clear"):
            got.clear()
        return Extra(None, seen=seen)
    return run


@action("get_defaults")
def _get_defaults(p):
    import numpoly
    from .record import Extra

    def run():
        got = numpoly.get_options(defaults=True)
        seen = _norm_opts(got)
        for k in list(got):
            got[k] = "junk"
        return Extra(None, seen=seen)
    return run


# ------------------------------------------------ C09 shape functions / indexing
def decode_index(items, as_tuple=True):
    out = []
    for it in items:
        t = it["t"]
        if t == "int":
            out.append(it["i"])
        elif t == "slice":
            out.append(slice(it["a"][0] if it["a"] else None, it["b"][0] if it["b"] else None,
                             it["st"][0] if it["st"] else None))
        elif t == "new":
            out.append(None)
        elif t == "ellipsis":
            out.append(Ellipsis)
        elif t == "list":
            out.append(list(it["v"]))
        elif t == "mask":
            out.append(numpy.array(it["v"], dtype=bool).reshape(it["shape"]))
        else:
            raise ValueError(t)
    return tuple(out) if as_tuple or len(out) != 1 else out[0]


def _opt(p, key, default=None):
    v = p.get(key, "none")
    return default if isinstance(v, str) and v == "none" else v


def _axis(p, key="axis"):
    v = _opt(p, key)
    return tuple(v) if isinstance(v, list) else v


# fn(mod, p, *operands); mod is numpy or numpoly; "method" spellings use operand methods
MOVES = {
    "reshape": lambda m, p, a: m.reshape(a, tuple(p["shape"]) if isinstance(p["shape"], list) else p["shape"],
                                         **({"order": p["order"]} if "order" in p else {})),
    "reshape_method": lambda m, p, a: a.reshape(tuple(p["shape"]) if isinstance(p["shape"], list) else p["shape"],
                                                **({"order": p["order"]} if "order" in p else {})),
    "transpose": lambda m, p, a: m.transpose(a, _opt(p, "axes")),
    "transpose_method": lambda m, p, a: a.transpose(*([] if _opt(p, "axes") is None else [p["axes"]])),
    "T": lambda m, p, a: a.T,
    "moveaxis": lambda m, p, a: m.moveaxis(a, p["source"], p["destination"]),
    "expand_dims": lambda m, p, a: m.expand_dims(a, _axis(p)),
    "atleast_1d": lambda m, p, *a: m.atleast_1d(*a),
    "atleast_2d": lambda m, p, *a: m.atleast_2d(*a),
    "atleast_3d": lambda m, p, *a: m.atleast_3d(*a),
    "repeat": lambda m, p, a: (m.repeat(a, p["repeats"]) if p.get("axis", "omitted") == "omitted"
                               else m.repeat(a, p["repeats"], axis=_axis(p))),
    "tile": lambda m, p, a: m.tile(a, p["reps"]),
    "concatenate": lambda m, p, *a: m.concatenate(list(a), axis=_axis(p)),
    "stack": lambda m, p, *a: m.stack(list(a), axis=p["axis"]),
    "hstack": lambda m, p, *a: m.hstack(list(a)),
    "vstack": lambda m, p, *a: m.vstack(list(a)),
    "dstack": lambda m, p, *a: m.dstack(list(a)),
    "split": lambda m, p, a: m.split(a, p["sections"], axis=p["axis"]),
    "array_split": lambda m, p, a: m.array_split(a, p["sections"], axis=p["axis"]),
    "hsplit": lambda m, p, a: m.hsplit(a, p["sections"]),
    "vsplit": lambda m, p, a: m.vsplit(a, p["sections"]),
    "dsplit": lambda m, p, a: m.dsplit(a, p["sections"]),
    "diag": lambda m, p, a: m.diag(a, k=p["k"]),
    "diagonal": lambda m, p, a: m.diagonal(a, offset=p["offset"], axis1=p["axis1"], axis2=p["axis2"]),
    "diagonal_method": lambda m, p, a: a.diagonal(offset=p["offset"], axis1=p["axis1"], axis2=p["axis2"]),
    "broadcast_arrays": lambda m, p, *a: m.broadcast_arrays(*a),
    "where": lambda m, p, x, y: m.where(numpy.array(p["cond"], dtype=bool).reshape(p["cshape"]), x, y),
    "choose": lambda m, p, *a: m.choose(numpy.array(p["idx"], dtype=int).reshape(p["ishape"]), list(a), mode=p.get("mode", "raise")),
    "full": lambda m, p, a: m.full(tuple(p["shape"]), a),
    "full_like": lambda m, p, a, b: m.full_like(a, b),
    "getitem": lambda m, p, a: a[decode_index(p["index"], p.get("tuple", True))],
    "iter": lambda m, p, a: list(a),
    "ravel": lambda m, p, a: a.ravel(),
    "flatten": lambda m, p, a: a.flatten(),
    "flat": lambda m, p, a: a.flat if hasattr(a.flat, "shape") else numpy.array(list(a.flat)),
    "copy_method": lambda m, p, a: a.copy(),
}
MULTI_OUT = {"split", "array_split", "hsplit", "vsplit", "dsplit", "broadcast_arrays", "iter"}
ATLEAST = {"atleast_1d", "atleast_2d", "atleast_3d"}


def move_callable(p):
    import numpoly
    fn = p["fn"]
    sp = p.get("spelling", "numpoly")
    mod = numpy if sp == "numpy" else numpoly
    f = MOVES[fn]

    def run(*ops):
        out = f(mod, p.get("p", {}), *ops)
        if fn in ATLEAST and len(ops) == 1:
            return [out]
        if fn in MULTI_OUT or fn in ATLEAST:
            return list(out)
        return [out]
    return run


def gather_map(p, operand_shapes):
    """What numpy does with the POSITIONS: run the same function on integer label
    arrays (label = operand * 100000 + flat position + 1; 0 = filled with zero)."""
    fn = p["fn"]
    labels = []
    for j, s in enumerate(operand_shapes, 1):
        n = int(numpy.prod(s, dtype=int))
        labels.append((numpy.arange(1, n + 1, dtype=numpy.int64) + j * 100000).reshape(s))
    f = MOVES[fn]
    out = f(numpy, p.get("p", {}), *labels)
    if fn in ATLEAST and len(labels) == 1:
        out = [out]
    elif fn in MULTI_OUT or fn in ATLEAST:
        out = list(out)
    else:
        out = [out]
    maps = []
    for o in out:
        o = numpy.asarray(o)
        src = [[int(v) // 100000, int(v) % 100000] if v else [0, 0] for v in o.ravel(order="C").tolist()]
        maps.append({"shape": [int(x) for x in o.shape], "src": src})
    return maps


@action("move")
def _move(p):
    run = move_callable(p)

    def call(*ops):
        from .record import Multi
        return Multi(run(*ops))
    return call


# ------------------------------------------------- C10 reductions, linear algebra
def _np_axis(p):
    v = p.get("axis", "none")
    if isinstance(v, str):
        return None
    return tuple(v) if isinstance(v, list) else v


def reduce_fields(fn, p, nargs=1):
    """The TLA-facing, uniformly typed fields of a reduce event."""
    ax = p.get("axis", "none")
    if ax == "omitted":
        ax = 0                  # only used with the ufunc.reduce / accumulate spellings: numpy's default there is axis 0
    none = isinstance(ax, str)
    axes = [] if none else (list(ax) if isinstance(ax, list) else [ax])
    return {"axes": axes, "axis_none": none, "keepdims": bool(p.get("keepdims", False)),
            "n": int(p.get("n", 1)), "has_pre": bool(p.get("has_pre", False)), "has_app": bool(p.get("has_app", False))}


@action("reduce")
def _reduce(p):
    import numpoly
    fn, sp, q = p["fn"], p.get("spelling", "numpoly"), p.get("p", {})
    mod = numpy if sp == "numpy" else numpoly
    axis = _np_axis(q)
    kd = {"keepdims": True} if q.get("keepdims") else {}

    def run(*ops):
        a = ops[0]
        if fn in ("sum", "prod"):
            if sp == "method":
                return getattr(a, fn)(axis=axis, **kd)
            if sp == "reduce":
                uf = numpy.add if fn == "sum" else numpy.multiply
                if q.get("axis") == "omitted":
                    return uf.reduce(a, **kd)          # ufunc.reduce without an axis works along the first one
                return uf.reduce(a, axis=axis, **kd)
            return getattr(mod, fn)(a, axis=axis, **kd)
        if fn == "mean":
            if sp == "method":
                return a.mean(axis=axis, **kd)
            return mod.mean(a, axis=axis, **kd)
        if fn == "cumsum":
            if sp == "method":
                return a.cumsum(axis=axis)
            if sp == "accumulate":
                if q.get("axis") == "omitted":
                    return numpy.add.accumulate(a)
                return numpy.add.accumulate(a, axis=axis)
            return mod.cumsum(a, axis=axis)
        if fn == "diff":
            kw = {}
            i = 1
            if q.get("has_pre"):
                kw["prepend"] = ops[i]
                i += 1
            if q.get("has_app"):
                kw["append"] = ops[i]
            return mod.diff(a, n=q.get("n", 1), axis=axis, **kw)
        if fn == "ediff1d":
            kw = {}
            i = 1
            if q.get("has_pre"):
                kw["to_begin"] = ops[i]
                i += 1
            if q.get("has_app"):
                kw["to_end"] = ops[i]
            return mod.ediff1d(a, **kw)
        if fn == "inner":
            return mod.inner(a, ops[1])
        if fn == "outer":
            return mod.outer(a, ops[1])
        if fn == "matmul":
            if sp == "operator":
                return a @ ops[1]
            return mod.matmul(a, ops[1])
        if fn == "det":
            return numpoly.det(a) if sp != "numpy" else numpy.linalg.det(a)
        raise ValueError(fn)
    return run


# ------------------------------------------------------ C07 comparison operators
_CMP_NP = {"lt": "less", "le": "less_equal", "gt": "greater", "ge": "greater_equal", "eq": "equal", "ne": "not_equal"}
_CMP_OP = {"lt": operator.lt, "le": operator.le, "gt": operator.gt, "ge": operator.ge, "eq": operator.eq, "ne": operator.ne}


@action("compare")
def _compare(p):
    import numpoly
    op, sp = p["op"], p.get("spelling", "operator")
    if sp == "operator":
        return _CMP_OP[op]
    return getattr(numpy if sp == "numpy" else numpoly, _CMP_NP[op])


@action("extreme")
def _extreme(p):
    import numpoly
    return getattr(numpy if p.get("spelling") == "numpy" else numpoly, p["op"])


# --------------------------------------------------- C19 leading terms and friends
@action("lead")
def _lead(p):
    import numpoly
    fn, sp = p["fn"], p.get("spelling", "numpoly")

    def run(a):
        if fn in ("lead_exponent", "lead_coefficient", "sortable_proxy"):
            kw = {}
            if p.get("flags_given", True):
                kw = {"graded": p["graded"], "reverse": p["reverse"]}
            return getattr(numpoly, fn)(a, **kw)
        if fn == "isconstant":
            return a.isconstant() if sp == "method" else numpoly.isconstant(a)
        if fn in ("argmax", "argmin", "amax", "amin"):
            kd = {"keepdims": True} if p.get("keepdims") and fn in ("amax", "amin") else {}
            if sp == "method":
                return getattr(a, {"amax": "max", "amin": "min"}.get(fn, fn))(**kd)
            return getattr(numpy if sp == "numpy" else numpoly, fn)(a, **kd)
        raise ValueError(fn)
    return run


@action("tonumpy")
def _tonumpy(p):
    import numpoly
    return (lambda a: a.tonumpy()) if p.get("spelling") == "method" else numpoly.tonumpy


@action("todict")
def _todict(p):
    from .record import Extra

    def run(a):
        d = a.todict()
        rows = [[int(e) for e in k] for k in d]
        coefs = [P._flat_nums(numpy.asarray(v)) for v in d.values()]
        return Extra(None, rows=rows, coefs=coefs)
    return run


@action("decompose")
def _decompose(p):
    import numpoly
    return numpoly.decompose


@action("set_dimensions")
def _set_dimensions(p):
    import numpoly
    return lambda a: numpoly.set_dimensions(a, p["dims"])


# ------------------------------------------------------------ C18 index utilities
def _ct(v):
    if isinstance(v, list):
        return tuple(_ct(x) for x in v)
    return float("inf") if v == "inf" else float(v)


@action("index")
def _index(p):
    import numpoly
    fn, q = p["fn"], p.get("p", {})

    def run(*given):
        if fn == "glexsort":
            keys = given[0] if given else numpy.array(q["keys"], dtype=int)     # a register: the caller's own key matrix
            if q.get("oned") and not given:
                keys = keys[0]
            return numpoly.glexsort(keys, graded=q["graded"], reverse=q["reverse"])
        if fn == "cross_truncate":
            return numpoly.cross_truncate(numpy.array(q["indices"], dtype=int).reshape(len(q["indices"]), -1),
                                          q["bound"], _ct(q["norm"]))
        kw = {}
        if "stop" in q:
            kw["stop"] = q["stop"]
        if "dimensions" in q:
            kw["dimensions"] = q["dimensions"]
        if q.get("dim_names"):
            names = tuple("q%d" % n for n in q["dim_names"])
            kw["dimensions"] = names if len(names) % 2 else numpoly.symbols(" ".join(names))   # a name tuple or the indeterminates
        if "cross_truncation" in q:
            kw["cross_truncation"] = _ct(q["cross_truncation"])
        if fn == "bindex":
            if "ordering" in q:
                kw["ordering"] = q["ordering"]
            return numpoly.bindex(q["start"], **kw)
        kw["graded"], kw["reverse"] = q["graded"], q["reverse"]
        if fn == "glexindex":
            return numpoly.glexindex(q["start"], **kw)
        if fn == "monomial":
            return numpoly.monomial(q["start"], **kw)
        raise ValueError(fn)
    return run


# ------------------------------------------------ C02 evaluation / substitution
@action("call")
def _call(p):
    import numpoly
    layout = p["layout"]        # {"pos": [arg position or 0 for None, ...], "kw": [[name string, arg position], ...]}
    sp = p.get("spelling", "call")

    def run(poly, *vals):
        pos = [None if a == 0 else vals[a - 2] for a in layout["pos"]]
        kw = {name: vals[a - 2] for name, a in layout["kw"]}
        if sp == "function":
            return numpoly.call(poly, tuple(pos), kw)
        return poly(*pos, **kw)
    return run


# --------------------------------------------- C06 derivative, gradient, Hessian
@action("deriv")
def _deriv(p):
    import numpoly
    fn = p["fn"]

    def run(poly):
        if fn == "gradient":
            return numpoly.gradient(poly)
        if fn == "hessian":
            return numpoly.hessian(poly)
        dv = []
        for d in p["designators"]:
            if d["as"] == "index":
                dv.append(int(d["v"]))
            elif d["as"] == "name":
                dv.append(str(d["v"]))
            elif d["as"] == "poly":
                dv.append(numpoly.symbols(str(d["v"])))
            else:                                      # an element of the array of the polynomial's own indeterminates
                dv.append(poly.indeterminants[list(poly.names).index(str(d["v"]))])
        return numpoly.derivative(poly, *dv)
    return run


# ------------------------------------- C03 construction from attributes, rebuilding
def _flag(v):
    return None if v == "none" else (v == "true")


@action("from_attributes")
def _from_attributes(p):
    import numpoly

    def run(*given):
        shape = tuple(p["shape"])
        dtype = p.get("dtype", "int64")
        coefs = [numpy.array([P.unnum(c) for c in row], dtype=dtype).reshape(shape) for row in p["coefs"]]
        if given:
            # the caller's own arrays (registers, so that the frame clause sees them): exponent table, then coefficients
            coefs = list(given[1:])
        names = tuple("q%d" % n for n in p["names"])
        kw = {}
        if p["rc"] != "none":
            kw["retain_coefficients"] = _flag(p["rc"])
        if p["rn"] != "none":
            kw["retain_names"] = _flag(p["rn"])
        via = p.get("via", "function")
        exps = given[0] if given else [list(r) for r in p["rows"]]
        if p.get("raw_rows"):
            exps = [[int(x) for x in r] for r in p["raw_rows"]]     # values TLC's integers cannot carry, as decimal strings
        # the forms the `names` argument may take; "string" / "omitted" denote q0..q(n-1) and are used only for those
        form = p.get("names_form", "tuple")
        standard = list(p["names"]) == list(range(len(p["names"])))
        if form == "list":
            names = list(names)
        elif form == "string" and standard:
            names = "q" if len(names) > 1 else "q0"      # a string names the single indeterminate itself ("q4" in the docstring)
        elif form == "omitted" and standard:
            names = None
        elif form == "poly":
            names = numpoly.symbols(" ".join(names)) if len(names) > 1 else numpoly.symbols(names[0] + ",")
        if via == "classmethod":
            return numpoly.ndpoly.from_attributes(exps, coefs, names, **kw)
        if via == "clean_attributes":
            raw = numpoly.polynomial_from_attributes(exps, coefs, names, retain_coefficients=True, retain_names=True)
            return numpoly.clean_attributes(raw, **kw)
        return numpoly.polynomial_from_attributes(exps, coefs, names, **kw)
    return run


@action("rebuild")
def _rebuild(p):
    import numpoly
    via = p["via"]

    def run(a):
        if via == "attributes":
            return numpoly.polynomial_from_attributes(a.exponents, a.coefficients, a.names)
        if via == "raw":
            return numpoly.aspolynomial(a.values, names=a.names)
        if via == "raw_polynomial":
            return numpoly.polynomial(a.values, names=a.names)
        if via == "todict":
            return numpoly.polynomial(a.todict(), names=a.names)
        if via == "polynomial":
            return numpoly.polynomial(a)
        if via == "aspolynomial":
            return numpoly.aspolynomial(a)
        if via == "indeterminants_call":
            return a(*a.indeterminants)
        if via == "sympy":
            return numpoly.polynomial(numpoly.to_sympy(a))
        raise ValueError(via)
    return run


@action("variable")
def _variable(p):
    import numpoly
    how = p.get("how", "variable")

    def run():
        if how == "variable":
            return numpoly.variable(p["n"])
        if how == "symbols_range":
            return numpoly.symbols("q:%d" % p["n"])
        return numpoly.symbols(" ".join("q%d" % i for i in p["ids"]))
    return run


# ---------------------------------------------------------------- C04 alignment
@action("align")
def _align(p):
    import numpoly
    from .record import Multi
    fn = getattr(numpoly, p["fn"])
    return lambda *ops: Multi(fn(*ops))


@action("realign")
def _realign(p):
    import numpoly
    from .record import Multi
    fn = getattr(numpoly, p["fn"])
    return lambda *ops: Multi(fn(*ops))


# ------------------------------------------------------- C17 frame: targets, any call
@action("copyto")
def _copyto(p):
    import numpoly
    sp = p.get("spelling", "numpoly")

    def run(dst, src):
        kw = {}
        if p.get("mask"):
            kw["where"] = numpy.array(p["mask"], dtype=bool).reshape(dst.shape)
        return (numpy if sp == "numpy" else numpoly).copyto(dst, src, **kw)
    return run


def _any_calls():
    import numpoly
    np = numpy
    return {
        "reshape_bad": lambda a: numpoly.reshape(a, (7, 11)),
        "transpose_bad": lambda a: numpoly.transpose(a, (5, 6)),
        "concatenate_bad": lambda a, b: numpoly.concatenate([a, b], axis=9),
        "tonumpy": lambda a: numpoly.tonumpy(a),
        "true_divide": lambda a, b: numpoly.true_divide(a, b),
        "floor_divide": lambda a, b: numpoly.floor_divide(a, b),
        "np_remainder": lambda a, b: np.remainder(a, b),
        "add_bad_shape": lambda a, b: a + numpoly.polynomial([[1, 2, 3, 4, 5], [1, 2, 3, 4, 5]]) + b,
        "call_bad": lambda a: a(q77=1),
        "getitem_bad": lambda a: a[99, 99, 99, 99],
        "np_sort": lambda a: np.sort(a),
        "np_linalg_inv": lambda a: np.linalg.inv(a),
        "np_arctan": lambda a: np.arctan(a),
        "reduceat": lambda a: np.add.reduceat(a, [0]),
        "outer_method": lambda a, b: np.add.outer(a, b),
        "divmod": lambda a, b: divmod(a, b),
        "poly_divide": lambda a, b: numpoly.poly_divide(a, b),
        "mod": lambda a, b: a % b,
        "equal": lambda a, b: a == b,
        "not_equal": lambda a, b: a != b,
        "derivative0": lambda a: numpoly.derivative(a, 0),
        "gradient": lambda a: numpoly.gradient(a),
        "isclose": lambda a, b: numpoly.isclose(a, b),
        "allclose": lambda a, b: numpoly.allclose(a, b),
        "where1": lambda a: numpoly.where(a),
        "nonzero": lambda a: numpoly.nonzero(a),
        "count_nonzero": lambda a: numpoly.count_nonzero(a),
        "any_all": lambda a: (numpoly.any(a), numpoly.all(a)),
        "logical": lambda a, b: (numpoly.logical_and(a, b), numpoly.logical_or(a, b)),
        "absolute": lambda a: numpoly.absolute(a),
        "around": lambda a: numpoly.around(a, 1),
        "rounding": lambda a: (numpoly.ceil(a), numpoly.floor(a), numpoly.rint(a)),
        "isfinite": lambda a: numpoly.isfinite(a),
        "ones_zeros_like": lambda a: (numpoly.ones_like(a), numpoly.zeros_like(a)),
        "str_repr": lambda a: (str(a), repr(a)),
        "pickle": lambda a: __import__("pickle").loads(__import__("pickle").dumps(a)),
        "copy": lambda a: (a.copy(), __import__("copy").copy(a), __import__("copy").deepcopy(a)),
        "properties": lambda a: (a.exponents, a.coefficients, a.names, a.keys, a.values, a.indeterminants, a.dtype, a.todict()),
        "astype_float": lambda a: a.astype(float),
        "sum_mean": lambda a: (numpoly.sum(a), numpoly.mean(a), numpoly.cumsum(a)),
        "max_min": lambda a: (numpoly.amax(a), numpoly.amin(a), numpoly.argmax(a), numpoly.argmin(a)),
        "sortable_proxy": lambda a: numpoly.sortable_proxy(a),
        "lead": lambda a: (numpoly.lead_exponent(a), numpoly.lead_coefficient(a)),
        "apply_along_axis": lambda a: numpoly.apply_along_axis(numpoly.sum, 0, a),
        "result_type": lambda a, b: (numpoly.result_type(a, b), numpoly.common_type(a, b)),
        "set_dimensions": lambda a: numpoly.set_dimensions(a, 1),
        "decompose": lambda a: numpoly.decompose(a),
        "to_sympy": lambda a: numpoly.to_sympy(a),
        "roots": lambda a: numpoly.roots(a),
        "inplace_add": None,
    }


@action("any")
def _any(p):
    table = _any_calls()
    return table[p["name"]]


# ------------------------------------------------------------------ C12 dtypes
@action("dtype")
def _dtype(p):
    import numpoly
    from .record import Extra
    fn = p["fn"]

    def run(*ops):
        if fn == "dtype_pair":
            return Extra(None, np=str(numpy.result_type(numpy.dtype(p["a"]), numpy.dtype(p["b"]))))
        if fn == "cast":
            import warnings
            src = numpy.array([P.unnum(v) for v in p["vals"]], dtype=p["frm"])
            with warnings.catch_warnings():
                warnings.simplefilter("ignore")
                out = src.astype(p["to"])
            return Extra(None, np_vals=P._flat_nums(out))
        if fn == "construct":
            how = p["how"]
            kw = {"dtype": p["dtype"]} if p["dtype"] else {}
            x = ops[0]
            if how == "polynomial":
                return numpoly.polynomial(x, **kw)
            if how == "aspolynomial":
                return numpoly.aspolynomial(x, **kw)
            if how in ("aspolynomial_names", "polynomial_names") and isinstance(x, numpoly.ndpoly):
                forms = [tuple(x.names), list(x.names), x.indeterminants]
                names = forms[p.get("names_form", 0) % 3]
                f = numpoly.aspolynomial if how == "aspolynomial_names" else numpoly.polynomial
                return f(x, names=names, **kw)
            if how in ("aspolynomial_names", "polynomial_names"):
                return numpoly.aspolynomial(x, **kw)
            if how == "astype":
                import warnings
                with warnings.catch_warnings():
                    warnings.simplefilter("ignore")
                    return x.astype(p["dtype"])
            if how == "from_attributes":
                return numpoly.polynomial_from_attributes(x.exponents, x.coefficients, x.names, **kw)
            raise ValueError(how)
        if fn == "variable":
            if p["how"] == "variable":
                return numpoly.variable(p["n"], dtype=p["dtype"])
            return numpoly.symbols("q:%d" % p["n"], dtype=p["dtype"])
        if fn == "arith":
            return _OP_BIN[p["op"]](ops[0], ops[1])
        raise ValueError(fn)
    return run


# -------------------------------------------------------- C05 polynomial division
class IterationCap(BaseException):
    """Raised by the loop observer when poly_divmod exceeds the iteration cap."""


ITERATION_CAP = 200


@action("polydiv")
def _polydiv(p):
    import numpoly
    from numpoly.poly_function.divide import divmod as divmod_module
    from .record import Extra, Multi
    fn, sp = p["fn"], p.get("spelling", "function")

    def run(a, b, *rest):
        digs = []
        original = divmod_module.get_division_candidate

        def observer(x1, x2, *args, **kwargs):
            dg = P.digest(x1)
            if dg in digs:
                # the loop is deterministic: a repeated running dividend proves non-termination
                digs.append(dg)
                raise IterationCap("running dividend repeated after %d iterations" % len(digs))
            digs.append(dg)
            if len(digs) > ITERATION_CAP:
                raise IterationCap("poly_divmod exceeded %d iterations" % ITERATION_CAP)
            return original(x1, x2, *args, **kwargs)
        divmod_module.get_division_candidate = observer
        capped = False
        try:
            try:
                if sp == "function":
                    out = {"divmod": numpoly.poly_divmod, "divide": numpoly.poly_divide,
                           "remainder": numpoly.poly_remainder}[fn](a, b)
                elif sp == "operator":
                    out = divmod(a, b) if fn == "divmod" else (a / b if fn == "divide" else a % b)
                else:
                    raise ValueError(sp)
            except IterationCap:
                capped, out = True, None
        finally:
            divmod_module.get_division_candidate = original
        if capped:
            return Extra(None, digs=digs[:ITERATION_CAP], capped=True, iterations=len(digs))
        value = Multi(out) if fn == "divmod" else out
        return Extra(value, digs=digs, capped=False, iterations=len(digs))
    return run


@action("same")
def _same(p):
    return lambda a, b: None


# ------------------------------------------------- C13 pickle, copy, text round trips
@action("copy")
def _copy(p):
    import copy
    import pickle
    how = p["how"]

    def run(a):
        if how == "pickle":
            return pickle.loads(pickle.dumps(a, protocol=p["protocol"]))
        if how == "copy":
            return copy.copy(a)
        if how == "deepcopy":
            return copy.deepcopy(a)
        return a.copy()
    return run


def _save_kwargs(p):
    kw = {}
    for k in ("fmt", "delimiter", "header", "comments"):
        if k in p and p[k] != "default":
            kw[k] = p[k]
    return kw


@action("saveload")
def _saveload(p):
    import io
    import os
    import tempfile
    import numpoly

    def run(a):
        kw = _save_kwargs(p)
        writer = numpy.savetxt if p.get("writer") == "numpy" else numpoly.savetxt
        lkw = {k: kw[k] for k in ("delimiter", "comments") if k in kw}
        if p.get("target") == "path":
            fd, path = tempfile.mkstemp(suffix=".txt")
            os.close(fd)
            try:
                writer(path, a, **kw)
                return numpoly.loadtxt(path, **lkw)
            finally:
                os.remove(path)
        buf = io.StringIO()
        writer(buf, a, **kw)
        buf.seek(0)
        return numpoly.loadtxt(buf, **lkw)
    return run


@action("loadplain")
def _loadplain(p):
    import io
    import numpoly

    def run(a):
        buf = io.StringIO()
        numpy.savetxt(buf, numpy.atleast_1d(numpy.asarray(a)).ravel())
        buf.seek(0)
        return numpoly.loadtxt(buf)
    return run


# ------------------------------------------------------ C16 str / repr / sympy
@action("text")
def _text(p):
    import numpoly
    from . import textlex
    from .record import Extra
    fn = p["fn"]

    def run(a):
        text = {"str": str, "repr": repr, "array_str": numpoly.array_str, "array_repr": numpoly.array_repr}[fn](a)
        opts = numpoly.get_options()
        kind = "repr" if "repr" in fn else "str"
        try:
            terms, err = textlex.lex(text, kind, opts["display_multiply"], opts["display_exponent"]), ""
        except Exception as exc:  # noqa: BLE001 - an unreadable text is an observation
            terms, err = [], "%s: %s" % (type(exc).__name__, str(exc)[:120])
        return Extra(None, text=text[:400], terms=terms, lexerror=err)
    return run


# ------------------------------------------- C11 constants behave like numpy
def _const_params(q):
    kw = {}
    for k, v in q.items():
        if isinstance(v, str) and v == "none":
            kw[k] = None
        elif isinstance(v, list) and k == "axis":
            kw[k] = tuple(v)
        else:
            kw[k] = v
    return kw


def _flatten_results(out):
    if isinstance(out, tuple):
        return list(out)
    if isinstance(out, list) and out and isinstance(out[0], numpy.ndarray):
        return list(out)
    return [out]


@action("constfn")
def _constfn(p):
    import warnings
    import numpoly
    from .record import Extra, Multi
    name, sp = p["fn"], p.get("spelling", "numpoly")
    kw = _const_params(p.get("p", {}))

    def run(*polys):
        arrays = [numpy.asarray(x.tonumpy() if isinstance(x, numpoly.ndpoly) else x) for x in polys]
        with warnings.catch_warnings():
            warnings.simplefilter("ignore")
            try:
                ref = _flatten_results(getattr(numpy, name)(*arrays, **kw))
                np_out, np_proj = "ret", [P.project_array(numpy.asarray(r)) for r in ref]
            except Exception as exc:  # noqa: BLE001
                np_out, np_proj = "raise", [P.project_exception(exc)]
            if np_out == "raise":
                return Extra(None, np=np_proj, np_out=np_out)       # numpy rejects the arguments: nothing to compare
            if sp == "method":
                # the method of the first operand (max / min for amax / amin, round for around)
                mname = {"amax": "max", "amin": "min", "around": "round"}.get(name, name)
                out = getattr(polys[0], mname)(*polys[1:], **kw)
            else:
                mod = numpy if sp == "numpy" else numpoly
                out = getattr(mod, name)(*polys, **kw)
        return Extra(Multi(_flatten_results(out)), np=np_proj, np_out=np_out)
    return run


# ------------------------------------------------- C08 registry sweep: both spellings of every registered function
SPELL_EXEMPT = {"copyto": "explicit output target, both spellings are exercised by the C17 copyto action",
                "savetxt": "writes a file; both writers are exercised by the C13 round trips",
                "ones": "array creator reached only through like=", "zeros": "array creator reached only through like=",
                "full": "numpy.full dispatches only through like=, never on the fill value (a converter outside the claim)"}


def spell_templates():
    """name of a registered function -> callable(f, o) performing one valid call on the operand set `o`
    (o.a, o.b: (2, 2) polynomial arrays; o.v, o.w: vectors; o.t: (2, 2, 2); o.s: 0-d; o.c, o.d: constant, o.d > 0)."""
    import numpoly
    una = lambda f, o: f(o.a)                                             # noqa: E731
    unc = lambda f, o: f(o.c)                                             # noqa: E731
    bina = lambda f, o: f(o.a, o.b)                                        # noqa: E731
    binc = lambda f, o: f(o.c, o.d)                                        # noqa: E731
    ax0 = lambda f, o: f(o.a, axis=0)                                      # noqa: E731
    seq = lambda f, o: f([o.a, o.b])                                       # noqa: E731
    t = {}
    for n in ("absolute", "negative", "positive", "square", "ones_like", "zeros_like", "nonzero", "count_nonzero", "atleast_1d",
              "atleast_2d", "atleast_3d", "transpose", "any", "all", "amax", "amin", "max", "min", "argmax", "argmin", "diagonal",
              "det", "ediff1d", "array_repr", "array_str", "isfinite"):
        t[n] = una
    for n in ("ceil", "floor", "rint", "around", "round"):
        t[n] = unc
    for n in ("sum", "prod", "mean", "cumsum", "diff"):
        t[n] = ax0
    for n in ("add", "subtract", "multiply", "equal", "not_equal", "less", "less_equal", "greater", "greater_equal", "maximum",
              "minimum", "logical_and", "logical_or", "isclose", "allclose", "matmul", "result_type", "common_type"):
        t[n] = bina
    for n in ("divide", "floor_divide", "remainder", "divmod", "power"):
        t[n] = binc
    for n in ("divide", "floor_divide", "remainder", "divmod"):
        t[n + "#poly"] = bina              # a non-constant divisor: both spellings refuse, with the same exception
    for n in ("concatenate", "stack", "hstack", "vstack", "dstack"):
        t[n] = seq
    t["inner"] = t["outer"] = lambda f, o: f(o.v, o.w)
    t["diag"] = lambda f, o: f(o.v)
    t["reshape"] = lambda f, o: f(o.a, (4,))
    t["tile"] = lambda f, o: f(o.a, 2)
    t["repeat"] = lambda f, o: f(o.a, 2, axis=0)
    t["expand_dims"] = lambda f, o: f(o.a, 0)
    t["moveaxis"] = lambda f, o: f(o.t, 0, 2)
    for n in ("split", "array_split", "hsplit", "vsplit"):
        t[n] = lambda f, o: f(o.a, 2)
    t["dsplit"] = lambda f, o: f(o.t, 2)
    t["broadcast_arrays"] = lambda f, o: f(o.a, o.v)
    t["where"] = lambda f, o: f(numpy.array([[True, False], [False, True]]), o.a, o.b)
    t["choose"] = lambda f, o: f(numpy.array([[0, 1], [1, 0]]), [o.a, o.b])
    t["full_like"] = lambda f, o: f(o.a, o.s)
    t["apply_along_axis"] = lambda f, o: f(numpoly.sum, 0, o.a)
    t["apply_over_axes"] = lambda f, o: f(numpoly.sum, o.a, [0])
    return t


@action("spell")
def _spell(p):
    import types
    import warnings
    import numpoly
    from .record import Extra, Multi
    name = p["fn"]
    template = spell_templates()[name]

    def run(a, b, v, w, t, s, c, d):
        o = types.SimpleNamespace(a=a, b=b, v=v, w=w, t=t, s=s, c=c, d=d)
        # the numpy callable as registered (numpy.linalg.det, ...) against the public numpoly function of that name
        base = name.split("#")[0]
        keys = [k for k in numpoly.FUNCTION_COLLECTION if k.__name__ == base]
        numpy_f, numpoly_f = keys[0], getattr(numpoly, base)
        with warnings.catch_warnings():
            warnings.simplefilter("ignore")
            try:
                ref = _flatten_results(template(numpy_f, o))
                np_out, np_proj = "ret", [P.project(r if not isinstance(r, (numpy.dtype, type)) else str(r)) for r in ref]
            except Exception as exc:  # noqa: BLE001
                np_out, np_proj = "raise", [P.project_exception(exc)]
            try:
                out = _flatten_results(template(numpoly_f, o))
            except Exception as exc:  # noqa: BLE001 - recorded as the outcome, together with what numpy's spelling did
                exc.verif_fields = {"np": np_proj, "np_out": np_out}
                raise
        return Extra(Multi([r if not isinstance(r, (numpy.dtype, type)) else str(r) for r in out]), np=np_proj, np_out=np_out)
    return run


@action("numdiv")
def _numdiv(p):
    import numpoly
    mod = numpy if p.get("spelling") == "numpy" else numpoly
    return getattr(mod, p["fn"])


# ------------------------------------------------- C08 dispatch: unsupported numpy calls
def overridable_functions():
    """Public numpy / numpy.linalg / numpy.fft functions that take part in the
    __array_function__ protocol, minus the array creators that dispatch only
    through a `like=` keyword."""
    import inspect
    out = {}
    for modname, mod in (("numpy", numpy), ("numpy.linalg", numpy.linalg), ("numpy.fft", numpy.fft)):
        for name in sorted(dir(mod)):
            if name.startswith("_"):
                continue
            f = getattr(mod, name)
            if not callable(f) or not hasattr(f, "_implementation"):
                continue
            try:
                sig = inspect.signature(f)
            except (TypeError, ValueError):
                sig = None
            if sig is not None and "like" in sig.parameters:
                continue                        # converters / creators: outside the claim
            out["%s.%s" % (modname, name)] = f
    return out


def public_ufuncs():
    return {name: getattr(numpy, name) for name in sorted(dir(numpy)) if isinstance(getattr(numpy, name), numpy.ufunc)}


def _probe_function(f, poly):
    """Call f with arguments synthesised from its signature until the call reaches
    ndpoly.__array_function__ (observed by a spy): only then does its outcome say anything."""
    import inspect
    import io
    import os
    import tempfile
    import numpoly
    try:
        sig = inspect.signature(f)
        required = [p for p in sig.parameters.values()
                    if p.default is inspect.Parameter.empty and p.kind in (p.POSITIONAL_ONLY, p.POSITIONAL_OR_KEYWORD)]
        n = max(1, len(required))
    except (TypeError, ValueError):
        n = 1
    fillers = [1, (1,), 0, [poly], "ij", "i,i"]
    candidates = [[poly] * n] + [[poly] + [x] * (n - 1) for x in fillers] + [[[poly, poly]] + [1] * (n - 1)] \
        + [[x] + [poly] * (n - 1) for x in fillers] + [[io.BytesIO()] + [poly] * max(1, n - 1)]
    seen = {"hit": False}
    original = numpoly.ndpoly.__array_function__

    def spy(self, func, types, args, kwargs):
        seen["hit"] = True
        return original(self, func, types, args, kwargs)
    numpoly.ndpoly.__array_function__ = spy
    cwd = os.getcwd()
    tmp = tempfile.mkdtemp(prefix="numpoly-verif-probe-")
    os.chdir(tmp)
    last = None
    try:
        for args in candidates:
            seen["hit"] = False
            try:
                val = f(*args)
                if seen["hit"]:
                    return "ret", val
            except Exception as exc:  # noqa: BLE001
                if seen["hit"]:
                    return "raise", exc
                last = exc                      # numpy's own argument validation: try other arguments
        return "noproof", last
    finally:
        numpoly.ndpoly.__array_function__ = original
        os.chdir(cwd)
        import shutil
        shutil.rmtree(tmp, ignore_errors=True)


@action("unsupported")
def _unsupported(p):
    import numpoly
    from .record import Extra
    kind, name = p["kind"], p["name"]

    def run(poly):
        if kind == "function":
            f = overridable_functions()[name]
            registered = f in numpoly.FUNCTION_COLLECTION
            if registered:
                return Extra(None, registered=True, dispatched=True)     # spelling agreement is checked elsewhere
            status, val = _probe_function(f, poly)
            if status == "noproof":
                return Extra(None, registered=registered, dispatched=False, note=repr(val)[:120])
            if status == "raise":
                raise val
            return Extra(val, registered=registered, dispatched=True)
        uf = public_ufuncs()[name]
        method = p.get("method", "__call__")
        args = [poly] * uf.nin
        if method == "__call__":
            registered = uf in numpoly.UFUNC_COLLECTION
            call = lambda: uf(*args)                                   # noqa: E731
        elif method in ("reduce", "accumulate"):
            from numpoly.baseclass import REDUCE_MAPPINGS, ACCUMULATE_MAPPINGS
            registered = uf in (REDUCE_MAPPINGS if method == "reduce" else ACCUMULATE_MAPPINGS)
            call = lambda: getattr(uf, method)(poly)                   # noqa: E731
        elif method == "outer":
            registered = False
            call = lambda: uf.outer(poly, poly)                        # noqa: E731
        elif method == "reduceat":
            registered = False
            call = lambda: uf.reduceat(poly, [0])                      # noqa: E731
        else:
            registered = False
            call = lambda: uf.at(poly, [0], poly[:1]) if uf.nin == 2 else uf.at(poly, [0])   # noqa: E731
        if registered:
            return Extra(None, registered=True, dispatched=True)
        try:
            val = call()
        except numpoly.FeatureNotSupported:
            raise
        except (TypeError, ValueError) as exc:
            if "not supported" in str(exc) or isinstance(exc, numpoly.FeatureNotSupported):
                raise
            if method in ("reduce", "accumulate", "outer", "reduceat", "at") and uf.nin != 2:
                return Extra(None, registered=True, dispatched=True, note="method undefined for this ufunc")
            raise
        return Extra(val, registered=registered, dispatched=True)
    return run


# ------------------------------------------ growth: API no listed property names
@action("from_roots")
def _from_roots(p):
    import numpoly
    return lambda r: numpoly.polynomial_from_roots(r)


@action("apply_along_axis")
def _apply_along_axis(p):
    import numpoly
    f = {"sum": numpoly.sum, "prod": numpoly.prod}[p["fn"]]
    mod = numpy if p.get("spelling") == "numpy" else numpoly
    return lambda a: mod.apply_along_axis(f, p["axis"], a)


@action("result_type")
def _result_type(p):
    import numpoly
    from .record import Extra
    mod = numpy if p.get("spelling") == "numpy" else numpoly
    return lambda a, b: Extra(None, dtype_name=str(numpy.dtype(mod.result_type(a, b))))


@action("logical")
def _logical(p):
    import numpoly
    mod = numpy if p.get("spelling") == "numpy" else numpoly
    return lambda a: getattr(mod, p["fn"])(a)
