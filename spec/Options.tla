------------------------------ MODULE Options ------------------------------
(***************************************************************************)
(* numpoly's process-global option record and the global_options context   *)
(* manager as a state machine (property C14).                              *)
(*                                                                         *)
(*   opts : the option record in force                                     *)
(*   ctx  : stack of option records saved by the open `with` blocks        *)
(*                                                                         *)
(* kw is a record holding the options passed; bad is the sequence of       *)
(* unknown option names passed along with them.                            *)
(***************************************************************************)
EXTENDS Sequences, Integers

DefaultOptions ==
  [default_varname |-> "q", display_graded |-> TRUE, display_reverse |-> FALSE,
   display_inverse |-> TRUE, display_exponent |-> "**", display_multiply |-> "*",
   force_number_suffix |-> TRUE, retain_names |-> TRUE, retain_coefficients |-> FALSE,
   sort_graded |-> TRUE, sort_reverse |-> FALSE, varname_filter |-> "q\\d+"]

OptionKeys == DOMAIN DefaultOptions
Override(o, kw) == [k \in DOMAIN o |-> IF k \in DOMAIN kw THEN kw[k] ELSE o[k]]

\* set_options(**kw, **bad)
SetOptionsOK(kw, bad) == bad = <<>> /\ DOMAIN kw \subseteq OptionKeys
SetOptionsOpts(o, kw, bad) == IF SetOptionsOK(kw, bad) THEN Override(o, kw) ELSE o

\* with global_options(**kw, **bad):
EnterOpts(o, kw, bad) == SetOptionsOpts(o, kw, bad)
EnterCtx(o, c, kw, bad) == IF SetOptionsOK(kw, bad) THEN Append(c, o) ELSE c
\* leaving the innermost block, normally or by an exception raised inside
ExitOpts(o, c) == IF c = <<>> THEN o ELSE c[Len(c)]
ExitCtx(c) == IF c = <<>> THEN c ELSE SubSeq(c, 1, Len(c) - 1)
=============================================================================
