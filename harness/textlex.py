"""Lexing of str(p) / repr(p) into terms (property C16).  This only reads the
text: which characters form a number, a name, the configured multiplication
and exponent signs, and where terms and array elements start.  What the terms
MEAN is decided by the specification (spec/Numpoly.tla, JText)."""
from __future__ import annotations

import re

from .project import num, name_id

_NUMBER = re.compile(r"(?:\d+\.?\d*(?:[eE][+-]?\d+)?|\.\d+(?:[eE][+-]?\d+)?|inf|nan)")
_NAME = re.compile(r"[A-Za-z_]\w*")


class LexError(Exception):
    pass


def split_elements(text: str, kind: str):
    """Element strings of an array text in C order."""
    t = text.strip()
    if kind == "repr":
        if not (t.startswith("polynomial(") and t.endswith(")")):
            raise LexError("repr does not look like polynomial(...)")
        t = t[len("polynomial("):-1]
        t = re.sub(r",\s*dtype=\w+\s*$", "", t)
    t = t.replace("\n", " ")
    if "[" not in t:
        return [t.strip()]
    body = t.replace("[", " ").replace("]", " ")
    parts = body.split(",") if kind == "repr" else body.split()
    return [p.strip() for p in parts if p.strip()]


def lex_element(s: str, mul: str, exp: str):
    """-> list of terms {sign, coef: Num, factors: [[name id, exponent], ...]}"""
    terms, i, n = [], 0, len(s)
    while i < n:
        sign = 1
        if s[i] in "+-":
            sign = -1 if s[i] == "-" else 1
            i += 1
        coef, factors = None, []
        first = True
        while i < n and s[i] not in "+-":
            if not first:
                if s.startswith(mul, i):
                    i += len(mul)
                else:
                    raise LexError("expected %r at %d in %r" % (mul, i, s))
            first = False
            if s[i] == "(":
                j = s.index(")", i)
                coef = _times(coef, complex(s[i + 1:j].replace(" ", "")))
                i = j + 1
                continue
            if s.startswith("True", i) or s.startswith("False", i):
                val = s.startswith("True", i)
                coef = _times(coef, 1 if val else 0)
                i += 4 if val else 5
                continue
            m = _NUMBER.match(s, i)
            if m:
                txt = m.group(0)
                # an exponent sign inside a float literal (1e-05) belongs to the number
                val = float(txt) if any(c in txt for c in ".eEn") else int(txt)
                if s.startswith("j", m.end()):
                    val = complex(0, val)
                    i = m.end() + 1
                else:
                    i = m.end()
                coef = _times(coef, val)
                continue
            m = _NAME.match(s, i)
            if m:
                name = m.group(0)
                i = m.end()
                e = 1
                if s.startswith(exp, i):
                    m2 = re.compile(r"\d+").match(s, i + len(exp))
                    if not m2:
                        raise LexError("exponent expected in %r" % s)
                    e = int(m2.group(0))
                    i = m2.end()
                factors.append([name_id(name), e])
                continue
            raise LexError("cannot read %r at %d" % (s, i))
        terms.append({"sign": sign, "coef": num(1 if coef is None else coef), "factors": factors})
    return terms


def _times(a, b):
    return b if a is None else a * b


def lex(text: str, kind: str, mul: str, exp: str):
    return [lex_element(e, mul, exp) for e in split_elements(text, kind)]
