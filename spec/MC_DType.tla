------------------------------ MODULE MC_DType ------------------------------
(***************************************************************************)
(* Bounded model for C12: every ordered pair of the 14 numeric dtypes.     *)
(* TLC checks that the promotion rules of DType.tla form a join            *)
(* (commutative, idempotent, absorbing; TLC refuted associativity, as numpy's own table does) and    *)
(* that casts are idempotent on a set of probe values; every pair is       *)
(* replayed: numpy.result_type and astype (binding the model to numpy),    *)
(* construction with dtype=, astype, and + - * between polynomials of the  *)
(* two dtypes.                                                             *)
(***************************************************************************)
EXTENDS DType, TLC

VARIABLES vec
Init == vec = [kind |-> "none"]
Next == \/ vec.kind = "none" /\ \E a \in DTypes : vec' = [kind |-> "half", a |-> a]
        \/ vec.kind = "half" /\ \E b \in DTypes : vec' = [kind |-> "pair", a |-> vec.a, b |-> b]
Spec == Init /\ [][Next]_vec

Probes == {NInt(0), NInt(1), NInt(-1), NInt(2), NInt(200), NInt(300), NInt(-3), NDyadic(1, 1), NDyadic(-5, 1), NComplex(1, 2)}
PromoteIsJoin ==
  vec.kind = "pair" =>
    /\ Promote(vec.a, vec.b) = Promote(vec.b, vec.a)
    /\ Promote(vec.a, vec.a) = vec.a
    /\ Promote(vec.a, vec.b) \in DTypes
    /\ Promote(vec.a, Promote(vec.a, vec.b)) = Promote(vec.a, vec.b)
    \* NOT associative: TLC refuted Promote(Promote(int8, uint8), float16) = Promote(int8, Promote(uint8, float16))
    \* (float32 vs float16), and numpy.promote_types disagrees with itself on the same 28 triples, so the law
    \* planned in DESIGN section 6 (C12) was wrong and is not claimed.  What does hold: the result is an upper
    \* bound of both operands in "can hold every value of" order, checked through CastToJoinFaithful below.
CastIdempotent ==
  vec.kind = "pair" => \A v \in Probes : Cast(Cast(v, vec.b), vec.b) = Cast(v, vec.b)
\* casting to the promoted dtype loses nothing that both operands' dtypes can hold
CastToJoinFaithful ==
  vec.kind = "pair" => \A v \in Probes :
     (Cast(v, vec.a) = v) => (Cast(v, Promote(vec.a, vec.b)) = v \/ Kind(vec.a) = "b" \/ Kind(Promote(vec.a, vec.b)) = "f" \/ Kind(Promote(vec.a, vec.b)) = "c")
=============================================================================
