"""spec -> code: programs enumerated by TLC (dumped states of the MC_* models)
are executed on the real numpoly; the recorded events go back to TLC
(Trace.tla) for judgment."""
from __future__ import annotations

from . import tlaval
from .project import build_poly
from .record import Recorder, reset_options


def leaf_programs(dump_path: str, var="prog", is_leaf=None):
    for st in tlaval.parse_dump(dump_path, variables={var}):
        prog = st[var]
        if is_leaf is None or is_leaf(prog):
            yield prog


def seed_to_poly(v: dict):
    spec = {"shape": v["shape"], "names": v["names"], "rows": v["rows"],
            "coefs": v["coefs"], "dtype": v.get("dtype", "int64")}
    return build_poly(spec)


SPELLINGS = ("operator", "numpy", "numpoly")


def run_ring_program(prog, tid: str, prop: str, variant: int = 0) -> dict:
    """Execute one MC_Ring program.  `variant` rotates spellings (carriers are
    parameters the specification ignores and the harness honours)."""
    reset_options()
    rec = Recorder(tid, prop)
    regs = []
    for n, ins in enumerate(prog):
        if ins["op"] == "seed":
            regs.append(rec.new(seed_to_poly(ins["v"]), note="seed"))
        else:
            sp = SPELLINGS[(variant + n) % 3]
            new = rec.do("arith", [regs[ins["a"] - 1], regs[ins["b"] - 1]], op=ins["op"], spelling=sp)
            if not new:
                break
            regs.append(new[0])
    rec.meta["source"] = "MC_Ring"
    return rec.to_json()


def leaf_has_op(prog) -> bool:
    return any(ins["op"] != "seed" for ins in prog)


STD_KEYS = ("act", "prop", "args", "out", "res", "digests", "targets", "opts", "ms", "kept", "note")


def reexecute(trace: dict, tid: str = None, prop: str = None, variant: int = 0) -> dict:
    """Re-run a recorded trace from its own JSON: inputs are rebuilt from the
    projections logged by `new` events, calls go through the action table."""
    from . import actions
    reset_options()
    rec = Recorder(trace["id"], trace.get("prop", prop or "?"))
    for ev in trace["events"]:
        if ev["act"] == "new":
            rec.new(actions.rebuild(ev["res"][0]), note=ev.get("note", ""))
            rec.events[-1]["prop"] = ev.get("prop", rec.prop)
            continue
        params = {k: v for k, v in ev.items() if k not in STD_KEYS}
        if any(a > len(rec.regs) for a in ev["args"]):
            break                                   # an earlier call changed arity: stop here
        rec.do(ev["act"], ev["args"], prop=ev.get("prop"), targets=ev.get("targets", ()),
               keep=ev.get("kept", True), **params)
    rec.meta["reexecuted"] = True
    return rec.to_json()
