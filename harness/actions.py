"""The action table: how an event (action name + JSON parameters) is performed
on the real numpoly.  Drivers, replay of TLC-generated programs, re-execution
of recorded traces (--replay) and the known-finding witnesses all go through
this table, so a recorded trace is executable from its own JSON."""
from __future__ import annotations

import operator

import numpy

from . import project as P

ACTIONS = {}


def action(name):
    def deco(fn):
        ACTIONS[name] = fn
        return fn
    return deco


def perform(act: str, params: dict):
    """Return the callable taking the operand objects."""
    return ACTIONS[act](params)


# ------------------------------------------------------------ rebuilding inputs
def rebuild(proj: dict):
    """Real object from the projection logged by a `new` event."""
    kind = proj["kind"]
    if kind == "poly":
        spec = {"shape": proj["shape"], "names": proj["names"], "rows": proj["rows"],
                "coefs": [[P.unnum(c) for c in row] for row in proj["coefs"]], "dtype": proj["dtype"]}
        return P.build_poly(spec)
    if kind == "array":
        vals = [P.unnum(c) for c in proj["vals"]]
        arr = numpy.array(vals, dtype=proj["dtype"]).reshape(proj["shape"])
        car = proj.get("carrier", "ndarray")
        if car == "ndarray":
            return arr
        if car == "list":
            return arr.tolist()
        if car == "npscalar":
            return arr[()]
        if car.startswith("py"):
            return arr.item()
        return arr
    raise ValueError("cannot rebuild input of kind %r" % kind)


# -------------------------------------------------------------------- C01 ring
_NP_BIN = {"add": "add", "sub": "subtract", "mul": "multiply", "pow": "power"}
_OP_BIN = {"add": operator.add, "sub": operator.sub, "mul": operator.mul, "pow": operator.pow}
_NP_UN = {"neg": "negative", "pos": "positive", "square": "square"}
_OP_UN = {"neg": operator.neg, "pos": operator.pos, "square": lambda a: a ** 2}


@action("arith")
def _arith(p):
    import numpoly
    op, sp = p["op"], p.get("spelling", "operator")
    if sp == "operator":
        return _OP_BIN[op]
    return getattr(numpy if sp == "numpy" else numpoly, _NP_BIN[op])


@action("unary")
def _unary(p):
    import numpoly
    op, sp = p["op"], p.get("spelling", "operator")
    if sp == "operator":
        return _OP_UN[op]
    return getattr(numpy if sp == "numpy" else numpoly, _NP_UN[op])
