"""C02 driver: evaluation and substitution with positional / keyword / None
bindings; Python numbers, numpy scalars of every width, arrays, polynomials."""
from __future__ import annotations

import random

import numpy

from .. import gen
from ..project import build_poly, name_id
from ..record import Recorder, reset_options

NP_SCALARS = ["int8", "int16", "int32", "int64", "uint8", "uint16", "uint32", "uint64", "float16", "float32", "float64"]
ARG_SHAPES = [(), (), (2,), (3,), (1, 3), (2, 1), (2, 1, 3)]
NARROW_BIG = [("int8", 100), ("int8", -100), ("uint8", 200), ("int16", 300), ("int16", -30000), ("uint16", 60000), ("int32", 70000),
              ("uint32", 70000), ("float16", 300.0), ("float32", 4099.5)]
BIG = [-1, -2, 2 ** 16 + 1, 2 ** 17, 2 ** 20 + 3, -(2 ** 16 + 1), 255, 256, 65535]


def rand_value(rng, shape, kind, small=True):
    c = rng.random()
    size = int(numpy.prod(shape, dtype=int))
    if shape == ():
        if not small and c < 0.5:
            # a value near the top of a narrow numpy type: its powers must not be taken in that type
            dt, v = rng.choice(NARROW_BIG)
            return numpy.dtype(dt).type(v)
        if c < 0.3:
            return rng.choice(BIG) if not small else rng.randint(-3, 3)
        if c < 0.4:
            return rng.choice([True, False])
        if c < 0.55:
            return rng.choice([-1.0, 0.5, 2.0, -0.25, 1.5])
        if c < 0.6:
            return rng.choice([1j, 1 - 1j, 0.5 + 0j])
        if c < 0.85:
            dt = rng.choice(NP_SCALARS)
            lo = 0 if dt.startswith("uint") else -3
            return numpy.dtype(dt).type(rng.randint(lo, 3))
        return numpy.array(rng.randint(-3, 3))
    vals = [rng.randint(-3, 3) for _ in range(size)]
    if c < 0.3:
        vals = [v * 0.5 for v in vals]
    arr = numpy.array(vals).reshape(shape)
    return arr.tolist() if rng.random() < 0.3 else arr


def one_trace(rng, tid, prop):
    reset_options()
    rec = Recorder(tid, prop)
    names = gen.rand_names(rng, 1, 3, pool=(0, 1, 2, 10))
    kind = rng.choice(["int", "int", "float"])
    spec = gen.rand_poly_spec(rng, shape=rng.choice([(), (2,), (2, 2), (1, 2), (3,)]), names=names, kind=kind,
                              max_terms=4, max_exp=3, min_terms=1)
    if rng.random() < 0.3:
        # evaluation must not depend on the retain / sort options (C15); the polynomial keeps its unused names
        rec.do("set_options", [], keep=False, kw={"retain_names": rng.random() < 0.5, "retain_coefficients": rng.random() < 0.5,
                                                  "sort_graded": rng.random() < 0.5}, bad=[], prop="C14")
    if rng.random() < 0.3 and len(names) > 1:
        # make sure some name is unused (only zero exponents in its column), preferably not the last one
        j = rng.randrange(len(names) - 1)
        for row in spec["rows"]:
            row[j] = 0
        seen, rows, coefs = set(), [], []
        for row, cf in zip(spec["rows"], spec["coefs"]):
            if tuple(row) not in seen:
                seen.add(tuple(row))
                rows.append(row)
                coefs.append(cf)
        spec["rows"], spec["coefs"] = rows, coefs
    if kind == "float" and rng.random() < 0.15:
        # coefficients of tiny magnitude (2**-40): "small" is not "zero", a substituted polynomial keeps its terms
        spec["coefs"] = [[c * 2.0 ** -40 for c in row] for row in spec["coefs"]]
    names = tuple(spec["names"])          # positional arguments follow the STORED order of the indeterminates
    p = rec.new(build_poly(spec))
    snames = ["q%d" % n for n in names]
    for _ in range(rng.randint(3, 7)):
        mode = rng.choice(["full", "full", "partial", "poly", "swap", "bad"])
        # true values stay far below 2**53 so that int64 and float64 evaluation are both exact
        big_ok = all(max(r) <= 2 for r in spec["rows"])
        big_used = False
        args, layout, bind = [p], {"pos": [], "kw": []}, []
        base_arg_shape = rng.choice(ARG_SHAPES)
        supplied = list(range(len(names)))
        if mode in ("partial", "poly") and len(names) > 1:
            supplied = sorted(rng.sample(range(len(names)), rng.randint(1, len(names) - (1 if mode == "partial" else 0))))
        npos = rng.randint(0, len(names))
        for i in range(len(names)):
            if i not in supplied:
                if i < npos:
                    layout["pos"].append(0)
                continue
            if mode in ("poly",) or (mode == "swap"):
                if mode == "swap":
                    other = names[(i + 1) % len(names)]
                    val = build_poly({"shape": [], "names": [other], "rows": [[1]], "coefs": [[1]], "dtype": "int64"})
                else:
                    val = build_poly(gen.rand_poly_spec(rng, shape=rng.choice([(), (2,)]), names=gen.rand_names(rng, 1, 2, pool=(0, 1, 5)),
                                                        kind="int", max_terms=2, max_exp=2, min_terms=1))
            else:
                shape = base_arg_shape if rng.random() < 0.6 else gen.broadcast_partner(rng, base_arg_shape)
                use_big = big_ok and not big_used and rng.random() < 0.4
                big_used = big_used or use_big
                val = rand_value(rng, shape, kind, small=not use_big)
            r = rec.new(val)
            args.append(r)
            apos = len(args)
            if i < npos:
                layout["pos"].append(apos)
                bind.append({"name": names[i], "arg": apos, "how": "pos"})
            else:
                layout["kw"].append([snames[i], apos])
                bind.append({"name": names[i], "arg": apos, "how": "kw"})
        # trailing positional None placeholders are legal too
        if mode == "bad":
            r = rec.new(rng.randint(0, 3))
            args.append(r)
            if rng.random() < 0.5 or not bind:
                layout["kw"].append(["q77", len(args)])                  # unknown name
                bind.append({"name": 77, "arg": len(args), "how": "kw"})
            else:
                dup = rng.choice([b for b in bind])
                if dup["how"] == "pos":
                    layout["kw"].append(["q%d" % dup["name"], len(args)])  # positional + keyword for one name
                    bind.append({"name": dup["name"], "arg": len(args), "how": "kw"})
                else:
                    layout["kw"].append(["q77", len(args)])
                    bind.append({"name": 77, "arg": len(args), "how": "kw"})
        rec.do("call", args, keep=False, layout=layout, bind=bind, spelling=rng.choice(["call", "function"]))
    reset_options()
    return rec.to_json()


def generate(seed, n, prop="C02", start=0, **kw):
    out = []
    for i in range(start, start + n):
        rng = random.Random("call/%d/%d" % (seed, i))
        out.append(one_trace(rng, "%s-call-s%d-%05d" % (prop, seed, i), prop, **kw))
    return out
