"""C03 driver: attribute triples (redundant zero terms, unused names, unsorted
rows, duplicates) through the constructors; rebuilding polynomials from their
attributes / raw view / dictionary; variable / symbols."""
from __future__ import annotations

import random

import numpy

from .. import gen
from ..project import build_poly, num
from ..record import Recorder, reset_options


def attr_case(rng):
    nd = rng.randint(1, 3)
    names = list(gen.rand_names(rng, nd, nd, pool=(0, 1, 2, 3, 10)))
    shape = rng.choice([(), (), (2,), (2, 2), (1, 2)])
    size = int(numpy.prod(shape, dtype=int))
    nr = rng.randint(1, 4)
    rows = []
    for _ in range(nr):
        c = rng.random()
        if c < 0.3:
            rows.append([0] * nd)
        elif c < 0.5 and rows:
            rows.append(list(rng.choice(rows)))          # duplicate row
        else:
            row = [rng.randint(0, 2) for _ in range(nd)]
            if rng.random() < 0.4:
                row[rng.randrange(nd)] = 0               # leaves names unused more often
            rows.append(row)
    if rng.random() < 0.6:
        seen, uniq = set(), []
        for r in rows:
            if tuple(r) not in seen:
                seen.add(tuple(r))
                uniq.append(r)
        rows = uniq
    coefs = []
    for _ in rows:
        if rng.random() < 0.3:
            coefs.append([0] * size)
        else:
            coefs.append([rng.choice([-2, -1, 0, 1, 3]) for _ in range(size)])
    bad = rng.random()
    if bad < 0.05 and len(names) > 1:
        names[1] = names[0]                              # duplicate names
    elif bad < 0.1:
        names = names + [7]                              # wrong number of names
    elif bad < 0.15 and len(coefs) > 1:
        coefs = coefs[:-1]                               # wrong number of coefficients
    return rows, coefs, list(shape), names


def one_trace(rng, tid, prop):
    import numpoly
    reset_options()
    rec = Recorder(tid, prop)
    if rng.random() < 0.5:
        rec.do("set_options", [], keep=False, kw={"retain_coefficients": rng.random() < 0.5,
                                                  "retain_names": rng.random() < 0.5}, bad=[])
    polys = []
    for _ in range(rng.randint(4, 9)):
        c = rng.random()
        if c < 0.5:
            rows, coefs, shape, names = attr_case(rng)
            given = []
            if rng.random() < 0.3 and rows and all(len(r) == len(rows[0]) for r in rows) and len(coefs) == len(rows):
                # the caller's own numpy arrays as arguments: they must come back untouched (C17)
                import numpy
                given = [rec.new(numpy.array(rows, dtype=rng.choice(["int64", "uint32", "int32"])).reshape(len(rows), len(rows[0])))]
                # coefficient arrays of different dtypes: the polynomial gets their common type, none is truncated
                kinds = [rng.choice(["int64", "int64", "float64", "int8"]) for _ in coefs]
                coefs = [[x + 0.5 for x in c] if k == "float64" and rng.random() < 0.7 else c for c, k in zip(coefs, kinds)]
                given += [rec.new(numpy.array(c, dtype=k).reshape(shape)) for c, k in zip(coefs, kinds)]
            new = rec.do("from_attributes", given, rows=rows, coefs=[[num(x) for x in r] for r in coefs], shape=shape,
                         names=names, rc=rng.choice(["none", "true", "false"]), rn=rng.choice(["none", "true", "false"]),
                         via=rng.choice(["function", "classmethod", "clean_attributes"]), dtype="int64",
                         names_form=rng.choice(["tuple", "tuple", "list", "string", "omitted", "poly"]))
            polys.extend(new)
        elif c < 0.6:
            n = rng.randint(1, 4)
            how = rng.choice(["variable", "symbols_range", "symbols_list"])
            ids = list(range(n)) if how != "symbols_list" else sorted(rng.sample([0, 1, 2, 5, 10, 12], n))
            if how == "symbols_list" and n == 1:
                how = "variable"
                ids = [0]
            new = rec.do("variable", [], n=n, ids=ids, how=how)
            polys.extend(new)
        else:
            if not polys or rng.random() < 0.4:
                kind = rng.choice(["int", "float", "complex"])
                spec = gen.rand_poly_spec(rng, kind=kind, max_terms=4)
                polys.append(rec.new(build_poly(spec)))
            a = rng.choice(polys)
            if rng.random() < 0.2 and rec.obj(a).ndim >= 2:
                t = rec.do("move", [a], fn="T", p={}, spelling="numpoly",
                           gather=__import__("harness.actions", fromlist=["gather_map"]).gather_map(
                               {"fn": "T", "p": {}}, [rec.obj(a).shape]), model=[], prop="C09")
                if t:
                    a = t[0]                        # a non-contiguous view as input
            via = rng.choice(["attributes", "raw", "raw_polynomial", "todict", "polynomial", "aspolynomial"])
            new = rec.do("rebuild", [a], via=via)
            polys.extend(r for r in new if isinstance(rec.obj(r), numpoly.ndpoly))
        if len(polys) > 6:
            polys = polys[-6:]
    reset_options()
    return rec.to_json()


def generate(seed, n, prop="C03", start=0, **kw):
    out = []
    for i in range(start, start + n):
        rng = random.Random("construct/%d/%d" % (seed, i))
        out.append(one_trace(rng, "%s-construct-s%d-%05d" % (prop, seed, i), prop, **kw))
    return out
