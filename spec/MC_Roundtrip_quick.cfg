SPECIFICATION Spec
CONSTANTS
  Tier = "quick"
INVARIANT SamePolynomial
CHECK_DEADLOCK FALSE
