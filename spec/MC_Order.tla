------------------------------ MODULE MC_Order ------------------------------
(***************************************************************************)
(* Bounded model for C07 (and the leading-term part of C19): all ordered   *)
(* pairs of a universe of small polynomials in q0, q1 under the four       *)
(* sort_graded / sort_reverse settings.  TLC checks that the documented    *)
(* rule IS a strict total order (trichotomy, antisymmetry, transitivity    *)
(* against every third polynomial, equality only for identical             *)
(* polynomials, constants ordered as numbers); the enumerated pairs are    *)
(* replayed on the six operators, maximum / minimum and the lead queries.  *)
(***************************************************************************)
EXTENDS Poly, TLC

CONSTANTS MaxTerms, Tier
CoefSet == IF Tier = "quick" THEN {-1, 2} ELSE {-1, 1, 2}

VARIABLES vec
Dims == <<0, 1>>
Rows == {<<0, 0>>, <<1, 0>>, <<0, 1>>, <<1, 1>>, <<2, 0>>, <<0, 2>>}
\* a polynomial as representation: a set of rows with a coefficient each
Reps == UNION {[S -> CoefSet] : S \in {T \in SUBSET Rows : Cardinality(T) <= MaxTerms}}
RowMonoD(r) == MNorm([n \in {0, 1} |-> r[n + 1]])
RepPoly(f) == [m \in {RowMonoD(r) : r \in DOMAIN f} |-> NInt(f[CHOOSE r \in DOMAIN f : RowMonoD(r) = m])]
Flags == BOOLEAN \X BOOLEAN

Init == vec = [kind |-> "none"]
\* two steps, so that the successors are computed by all workers and not by the one that owns the initial state
Next == \/ vec.kind = "none" /\ \E a \in Reps : vec' = [kind |-> "half", a |-> a]
        \/ vec.kind = "half" /\ \E b \in Reps, f \in Flags :
              vec' = [kind |-> "order", a |-> vec.a, b |-> b, graded |-> f[1], reverse |-> f[2]]
Spec == Init /\ [][Next]_vec

Cmp(x, y) == ECmp(RepPoly(x), RepPoly(y), Dims, vec.graded, vec.reverse)
Trichotomy == vec.kind = "order" => Cmp(vec.a, vec.b) \in {-1, 0, 1}
Antisymmetric == vec.kind = "order" => Cmp(vec.a, vec.b) = 0 - Cmp(vec.b, vec.a)
EqualOnlyIfIdentical == vec.kind = "order" => ((Cmp(vec.a, vec.b) = 0) <=> (RepPoly(vec.a) = RepPoly(vec.b)))
Transitive == vec.kind = "order" =>
   \A c \in Reps : (Cmp(vec.a, vec.b) < 0 /\ Cmp(vec.b, c) < 0) => Cmp(vec.a, c) < 0
ConstantsAsNumbers == vec.kind = "order" =>
   ((DOMAIN vec.a \subseteq {<<0, 0>>} /\ DOMAIN vec.b \subseteq {<<0, 0>>}) =>
       LET va == IF vec.a = <<>> THEN 0 ELSE vec.a[<<0, 0>>]
           vb == IF vec.b = <<>> THEN 0 ELSE vec.b[<<0, 0>>]
       IN Cmp(vec.a, vec.b) = (IF va < vb THEN -1 ELSE IF va > vb THEN 1 ELSE 0))
\* the leading monomial is the largest one present, the leading coefficient its coefficient
LeadIsMax == vec.kind = "order" =>
   LET p == RepPoly(vec.a)
       lm == ELeadMono(p, Dims, vec.graded, vec.reverse)
   IN p = EZero \/ (lm \in DOMAIN p /\ \A m \in DOMAIN p : m = lm \/ MLess(m, lm, Dims, vec.graded, vec.reverse))
=============================================================================
