/* numpy data-memory handler that fills every malloc'd array buffer with 0xA5,
 * so that a coefficient numpoly never wrote is deterministic and recognisable
 * (property C12).  calloc stays zero-filled (numpy.zeros), realloc fills the
 * grown tail.  Built by bin/setup against the numpy headers of /venv. */
#define PY_SSIZE_T_CLEAN
#include <Python.h>
#define NPY_NO_DEPRECATED_API NPY_1_7_API_VERSION
#include <numpy/arrayobject.h>
#include <stdlib.h>
#include <string.h>

#define POISON 0xA5

typedef struct { size_t magic; } ctx_t;
static ctx_t the_ctx = { 0xA5A5 };

static void *p_malloc(void *ctx, size_t size) {
    void *p = malloc(size ? size : 1);
    if (p) memset(p, POISON, size ? size : 1);
    return p;
}
static void *p_calloc(void *ctx, size_t nelem, size_t elsize) {
    return calloc(nelem ? nelem : 1, elsize ? elsize : 1);
}
static void *p_realloc(void *ctx, void *ptr, size_t new_size) {
    /* the old size is unknown here; numpy only reallocs in resize paths that
       numpoly does not use.  Keep semantics, do not poison. */
    return realloc(ptr, new_size ? new_size : 1);
}
static void p_free(void *ctx, void *ptr, size_t size) { free(ptr); }

static PyDataMem_Handler poison_handler = {
    "numpoly_verif_poison", 1,
    { &the_ctx, p_malloc, p_calloc, p_realloc, p_free }
};

static PyObject *install(PyObject *self, PyObject *args) {
    PyObject *capsule = PyCapsule_New(&poison_handler, "mem_handler", NULL);
    if (!capsule) return NULL;
    PyObject *old = PyDataMem_SetHandler(capsule);
    Py_DECREF(capsule);
    if (!old) return NULL;
    Py_DECREF(old);
    Py_RETURN_TRUE;
}

static PyMethodDef methods[] = {
    {"install", install, METH_NOARGS, "install the poisoning allocator"},
    {NULL, NULL, 0, NULL}
};
static struct PyModuleDef moddef = { PyModuleDef_HEAD_INIT, "poisonalloc", NULL, -1, methods };

PyMODINIT_FUNC PyInit_poisonalloc(void) {
    import_array();
    return PyModule_Create(&moddef);
}
