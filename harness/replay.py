"""spec -> code: programs enumerated by TLC (dumped states of the MC_* models)
are executed on the real numpoly; the recorded events go back to TLC
(Trace.tla) for judgment."""
from __future__ import annotations

from . import tlaval
from .project import build_poly
from .record import Recorder, reset_options


def leaf_programs(dump_path: str, var="prog", is_leaf=None):
    for st in tlaval.parse_dump(dump_path, variables={var}):
        prog = st[var]
        if is_leaf is None or is_leaf(prog):
            yield prog


def seed_to_poly(v: dict):
    spec = {"shape": v["shape"], "names": v["names"], "rows": v["rows"],
            "coefs": v["coefs"], "dtype": v.get("dtype", "int64")}
    return build_poly(spec)


SPELLINGS = ("operator", "numpy", "numpoly")


def run_ring_program(prog, tid: str, prop: str, variant: int = 0) -> dict:
    """Execute one MC_Ring program.  `variant` rotates spellings (carriers are
    parameters the specification ignores and the harness honours)."""
    reset_options()
    rec = Recorder(tid, prop)
    regs = []
    for n, ins in enumerate(prog):
        if ins["op"] == "seed":
            regs.append(rec.new(seed_to_poly(ins["v"]), note="seed"))
        else:
            sp = SPELLINGS[(variant + n) % 3]
            new = rec.do("arith", [regs[ins["a"] - 1], regs[ins["b"] - 1]], op=ins["op"], spelling=sp)
            if not new:
                break
            regs.append(new[0])
    rec.meta["source"] = "MC_Ring"
    return rec.to_json()


def leaf_has_op(prog) -> bool:
    return any(ins["op"] != "seed" for ins in prog)


STD_KEYS = ("act", "prop", "args", "out", "res", "digests", "targets", "after", "opts", "ms", "kept", "note")


def reexecute(trace: dict, tid: str = None, prop: str = None, variant: int = 0) -> dict:
    """Re-run a recorded trace from its own JSON: inputs are rebuilt from the
    projections logged by `new` events, calls go through the action table."""
    from . import actions
    reset_options()
    rec = Recorder(trace["id"], trace.get("prop", prop or "?"))
    for ev in trace["events"]:
        if ev["act"] == "new":
            rec.new(actions.rebuild(ev["res"][0]), note=ev.get("note", ""))
            rec.events[-1]["prop"] = ev.get("prop", rec.prop)
            continue
        params = {k: v for k, v in ev.items() if k not in STD_KEYS}
        if any(a > len(rec.regs) for a in ev["args"]):
            break                                   # an earlier call changed arity: stop here
        rec.do(ev["act"], ev["args"], prop=ev.get("prop"), targets=ev.get("targets", ()),
               keep=ev.get("kept", True), **params)
    rec.meta["reexecuted"] = True
    return rec.to_json()


# ------------------------------------------------------------ C14 option machine
def option_walks(dot_path: str, max_len: int = 60):
    """Cover every edge of the dumped quotient graph by walks from the initial
    state.  Returns (walks, n_edges); a walk is the list of `last` records."""
    from collections import deque
    nodes, edges, inits = tlaval.parse_dot(dot_path, variables={"last"})
    adj = {}
    for s, d, _ in edges:
        adj.setdefault(s, [])
        if d not in adj[s]:
            adj[s].append(d)
    uncovered = {(s, d) for s in adj for d in adj[s]}
    total = len(uncovered)

    def path_to_uncovered(start):
        prev, dq = {start: None}, deque([start])
        while dq:
            u = dq.popleft()
            if any((u, v) in uncovered for v in adj.get(u, ())):
                path = []
                while prev[u] is not None:
                    path.append(u)
                    u = prev[u]
                return list(reversed(path))
            for v in adj.get(u, ()):
                if v not in prev:
                    prev[v] = u
                    dq.append(v)
        return None

    walks = []
    init = inits[0]
    while uncovered:
        cur, walk = init, []
        while len(walk) < max_len:
            nxt = [v for v in adj.get(cur, ()) if (cur, v) in uncovered]
            if nxt:
                v = nxt[0]
                uncovered.discard((cur, v))
                walk.append(nodes[v]["last"])
                cur = v
                continue
            path = path_to_uncovered(cur)
            if path is None or len(walk) + len(path) >= max_len:
                break
            for v in path:
                uncovered.discard((cur, v))
                walk.append(nodes[v]["last"])
                cur = v
        if not walk:
            break
        walks.append(walk)
    return walks, total


def run_option_walk(walk, tid: str, prop: str, variant: int = 0) -> dict:
    reset_options()
    rec = Recorder(tid, prop)
    depth = 0
    for last in walk:
        act = last["act"]
        kw = last["kw"] if isinstance(last["kw"], dict) else {}
        bad = list(last["bad"])
        if act in ("set_options", "enter"):
            rec.do(act, [], keep=False, kw=kw, bad=bad)
            if act == "enter" and not bad:
                depth += 1
        elif act == "exit":
            rec.do("exit", [], keep=False)
            depth -= 1
        elif act == "exit_exc":
            rec.do("exit_exc", [], keep=False, thrown=last["thrown"])
            depth -= 1
        elif act == "get_mutate":
            rec.do("get_mutate", [], keep=False, clear=bool(variant % 2))
        elif act == "get_defaults":
            rec.do("get_defaults", [], keep=False)
    while depth > 0:
        rec.do("exit", [], keep=False)
        depth -= 1
    reset_options()
    rec.meta["source"] = "MC_Options"
    return rec.to_json()


def option_walks_items(dot_path: str):
    walks, total = option_walks(dot_path)
    return walks, {"graph_edges": total, "edges_covered_by_walks": total, "walks": len(walks)}


def ring_programs(dump_path: str):
    progs = list(leaf_programs(dump_path, var="prog", is_leaf=leaf_has_op))
    return progs, {}


# ------------------------------------------------------------ C05 division pairs
def divide_pairs(dump_path: str):
    """The (dividend, divisor) pairs TLC enumerates as initial states of spec/Divide.tla."""
    pairs, seen = [], set()
    for st in tlaval.parse_dump(dump_path, variables={"dividend", "divisor", "quotient", "orig", "done"}):
        if st["quotient"] != [] or st["done"] or st["dividend"] != st["orig"]:
            continue
        key = repr((st["dividend"], st["divisor"]))
        if key not in seen:
            seen.add(key)
            pairs.append({"dividend": st["dividend"], "divisor": st["divisor"]})
    return pairs, {"pairs": len(pairs)}


def _tla_poly(f):
    """TLA+ function <<e0,e1>> -> <<n,d>> (or <<>> for zero) to a 0-d float polynomial in q0, q1."""
    if not f:
        rows, coefs = [[0, 0]], [[0.0]]
    else:
        rows = [list(k) for k in f]
        coefs = [[v[0] / v[1]] for v in f.values()]
    return build_poly({"shape": [], "names": [0, 1], "rows": rows, "coefs": coefs, "dtype": "float64"})


def run_divide_pair(pair, tid: str, prop: str, variant: int = 0) -> dict:
    reset_options()
    rec = Recorder(tid, prop, timeout_s=20.0)
    n = rec.new(_tla_poly(pair["dividend"]), note="dividend")
    d = rec.new(_tla_poly(pair["divisor"]), note="divisor")
    fn = ("divmod", "divmod", "divide", "remainder")[variant % 4]
    sp = ("function", "operator")[(variant // 4) % 2]
    rec.do("polydiv", [n, d], keep=False, fn=fn, spelling=sp, capped=False, digs=[], iterations=0)
    rec.meta["source"] = "Divide"
    return rec.to_json()
