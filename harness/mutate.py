"""Development-time mutation campaign (not part of any registered check).

Generates small syntactic changes to numpoly's sources in scratch copies OUTSIDE /repo,
keeps those that the repository's own test suite does not notice, and runs the quick
checks of the properties anchored in the changed file against the scratch copy
(VERIF_REPO).  Survivors of both are printed for triage: each is either an equivalent
change or a gap in the checks.

  python -m harness.mutate list  <file> ...          # enumerate mutants
  python -m harness.mutate run   [--max N] [--jobs J] [--out results.jsonl] <file> ...

Nothing is ever written to /repo.
"""
from __future__ import annotations

import argparse
import ast
import json
import os
import random
import shutil
import subprocess
import sys
import tempfile

VERIF = os.path.dirname(os.path.dirname(os.path.abspath(__file__)))
REPO = "/repo"
BASE_FAILS = {"test/test_array_function.py::test_count_nonzero[numpoly]", "test/test_array_function.py::test_count_nonzero[numpy]"}

# file (relative to /repo) -> properties whose quick checks are run on a surviving mutant
PROPS = {
    "numpoly/baseclass.py": ["C01", "C03", "C12", "C13", "C02", "C10", "C11", "C08", "C20"],
    "numpoly/align.py": ["C04", "C01", "C17"],
    "numpoly/dispatch.py": ["C08", "C01"],
    "numpoly/option.py": ["C14", "C15"],
    "numpoly/construct/clean.py": ["C03", "C15", "C01"],
    "numpoly/construct/from_attributes.py": ["C03", "C12", "C20"],
    "numpoly/construct/polynomial.py": ["C03", "C12", "C16", "C20"],
    "numpoly/construct/aspolynomial.py": ["C03", "C12"],
    "numpoly/construct/compose.py": ["C03", "C09"],
    "numpoly/construct/symbols.py": ["C03", "C12"],
    "numpoly/construct/variable.py": ["C03", "C12"],
    "numpoly/construct/monomial.py": ["C18"],
    "numpoly/poly_function/derivative.py": ["C06", "C15", "C20"],
    "numpoly/poly_function/call.py": ["C02", "C15"],
    "numpoly/poly_function/divide/divmod.py": ["C05", "C17"],
    "numpoly/poly_function/divide/divide.py": ["C05", "C08"],
    "numpoly/poly_function/divide/remainder.py": ["C05", "C08"],
    "numpoly/poly_function/divide/candidate.py": ["C05"],
    "numpoly/poly_function/sortable_proxy.py": ["C07", "C19"],
    "numpoly/poly_function/lead_exponent.py": ["C19", "C05"],
    "numpoly/poly_function/lead_coefficient.py": ["C19", "C05"],
    "numpoly/poly_function/decompose.py": ["C19"],
    "numpoly/poly_function/set_dimensions.py": ["C19"],
    "numpoly/poly_function/tonumpy.py": ["C19"],
    "numpoly/poly_function/isconstant.py": ["C11", "C19"],
    "numpoly/poly_function/largest_exponent.py": ["C19", "C18"],
    "numpoly/poly_function/to_string.py": ["C16"],
    "numpoly/poly_function/to_array.py": ["C19", "C16"],
    "numpoly/poly_function/to_sympy.py": ["C16"],
    "numpoly/poly_function/monomial/cross_truncation.py": ["C18"],
    "numpoly/poly_function/monomial/monomial.py": ["C18"],
    "numpoly/utils/glexindex.py": ["C18"],
    "numpoly/utils/glexsort.py": ["C18", "C07"],
    "numpoly/utils/bindex.py": ["C18"],
    "numpoly/utils/cross_truncation.py": ["C18"],
    "numpoly/array_function/common.py": ["C01", "C08", "C11"],
}
DEFAULT_ARRAY_FUNCTION = ["C08", "C09", "C10", "C11"]


def props_for(rel):
    if rel in PROPS:
        return PROPS[rel]
    if rel.startswith("numpoly/array_function/"):
        name = os.path.basename(rel)[:-3]
        special = {"add": ["C01", "C08", "C12"], "subtract": ["C01", "C08", "C12"], "multiply": ["C01", "C12", "C20", "C15"],
                   "power": ["C01", "C17", "C20"], "negative": ["C01", "C08"], "positive": ["C01", "C08"], "square": ["C01", "C08"],
                   "savetxt": ["C13", "C20"], "loadtxt": ["C13", "C20"], "save": ["C13"], "savez": ["C13"], "load": ["C13"],
                   "array_repr": ["C16"], "array_str": ["C16"],
                   "less": ["C07"], "less_equal": ["C07"], "greater": ["C07"], "greater_equal": ["C07"], "equal": ["C07", "C11"],
                   "not_equal": ["C07", "C11"], "maximum": ["C07"], "minimum": ["C07"], "amax": ["C07", "C11"], "amin": ["C07", "C11"],
                   "argmax": ["C07", "C11"], "argmin": ["C07", "C11"], "max": ["C07", "C11"], "min": ["C07", "C11"],
                   "sum": ["C10", "C08"], "prod": ["C10"], "cumsum": ["C10"], "mean": ["C10"], "diff": ["C10"], "ediff1d": ["C10"],
                   "inner": ["C10"], "outer": ["C10"], "matmul": ["C10"], "det": ["C10"], "copyto": ["C17"], "result_type": ["C12"],
                   "astype": ["C12"], "full": ["C09", "C12"], "full_like": ["C09", "C12"], "zeros": ["C12"], "ones": ["C12"]}
        return special.get(name, DEFAULT_ARRAY_FUNCTION)
    return ["C01", "C03"]


# --------------------------------------------------------------------- mutants
CMP = {ast.Lt: ast.LtE, ast.LtE: ast.Lt, ast.Gt: ast.GtE, ast.GtE: ast.Gt, ast.Eq: ast.NotEq, ast.NotEq: ast.Eq,
       ast.Is: ast.IsNot, ast.IsNot: ast.Is, ast.In: ast.NotIn, ast.NotIn: ast.In}
BIN = {ast.Add: ast.Sub, ast.Sub: ast.Add, ast.Mult: ast.Add, ast.FloorDiv: ast.Mod, ast.Mod: ast.FloorDiv,
       ast.BitAnd: ast.BitOr, ast.BitOr: ast.BitAnd}


def _skip_node(node, parents):
    for p in parents:
        if isinstance(p, (ast.Assert, ast.Raise, ast.AnnAssign)) and False:
            return True
        if isinstance(p, ast.Assert) or isinstance(p, ast.Raise):
            return True
        if isinstance(p, ast.Call) and isinstance(p.func, ast.Attribute) and p.func.attr in ("debug", "info", "warning", "warn"):
            return True
        if isinstance(p, (ast.FunctionDef,)) and node in getattr(p, "decorator_list", []):
            return True
        if isinstance(p, ast.arguments):
            return True                        # defaults / annotations
    return False


def enumerate_mutants(source: str):
    """Yield (lineno, col, end_lineno, end_col, replacement text, description)."""
    tree = ast.parse(source)
    out = []

    def visit(node, parents):
        if isinstance(node, ast.Expr) and isinstance(node.value, ast.Constant) and isinstance(node.value.value, str):
            return                                  # docstring
        if isinstance(node, (ast.Import, ast.ImportFrom)):
            return
        if hasattr(node, "lineno") and not _skip_node(node, parents):
            seg = (node.lineno, node.col_offset, node.end_lineno, node.end_col_offset)
            if isinstance(node, ast.Compare) and len(node.ops) == 1 and type(node.ops[0]) in CMP:
                new = ast.Compare(left=node.left, ops=[CMP[type(node.ops[0])]()], comparators=node.comparators)
                out.append(seg + ("(" + ast.unparse(new) + ")", "compare %s" % type(node.ops[0]).__name__))
            elif isinstance(node, ast.BinOp) and type(node.op) in BIN:
                if not (isinstance(node.op, ast.Mod) and isinstance(node.left, ast.Constant) and isinstance(node.left.value, str)):
                    new = ast.BinOp(left=node.left, op=BIN[type(node.op)](), right=node.right)
                    out.append(seg + ("(" + ast.unparse(new) + ")", "binop %s" % type(node.op).__name__))
            elif isinstance(node, ast.BoolOp):
                new = ast.BoolOp(op=ast.Or() if isinstance(node.op, ast.And) else ast.And(), values=node.values)
                out.append(seg + ("(" + ast.unparse(new) + ")", "boolop"))
            elif isinstance(node, ast.UnaryOp) and isinstance(node.op, ast.Not):
                out.append(seg + ("(" + ast.unparse(node.operand) + ")", "drop not"))
            elif isinstance(node, ast.UnaryOp) and isinstance(node.op, ast.USub) and not isinstance(node.operand, ast.Constant):
                out.append(seg + ("(" + ast.unparse(node.operand) + ")", "drop minus"))
            elif isinstance(node, ast.Constant) and type(node.value) is int and -2 <= node.value <= 3:
                out.append(seg + (repr(node.value + 1), "const %d+1" % node.value))
                if node.value > 0:
                    out.append(seg + (repr(node.value - 1), "const %d-1" % node.value))
            elif isinstance(node, ast.Constant) and type(node.value) is bool:
                out.append(seg + (repr(not node.value), "bool flip"))
            elif isinstance(node, ast.Call):
                for i, kw in enumerate(node.keywords):
                    if kw.arg is not None and kw.arg not in ("dtype",) and not isinstance(kw.value, ast.Constant):
                        new = ast.Call(func=node.func, args=node.args, keywords=node.keywords[:i] + node.keywords[i + 1:])
                        out.append(seg + (ast.unparse(new), "drop keyword %s" % kw.arg))
                if len(node.args) >= 2 and all(isinstance(a, (ast.Name, ast.Attribute, ast.Subscript)) for a in node.args[:2]) \
                        and ast.dump(node.args[0]) != ast.dump(node.args[1]):
                    new = ast.Call(func=node.func, args=[node.args[1], node.args[0]] + node.args[2:], keywords=node.keywords)
                    out.append(seg + (ast.unparse(new), "swap arguments"))
            elif isinstance(node, ast.If) or isinstance(node, ast.IfExp):
                t = node.test
                tseg = (t.lineno, t.col_offset, t.end_lineno, t.end_col_offset)
                if not isinstance(t, (ast.Compare, ast.UnaryOp, ast.BoolOp)):
                    out.append(tseg + ("(not " + ast.unparse(t) + ")", "negate condition"))
            elif isinstance(node, ast.Subscript) and isinstance(node.slice, ast.Slice):
                sl = node.slice
                if sl.lower is not None and sl.upper is None and sl.step is None:
                    s2 = (sl.lower.lineno, sl.lower.col_offset, sl.lower.end_lineno, sl.lower.end_col_offset)
                    out.append(s2 + ("(" + ast.unparse(sl.lower) + ") + 1", "slice lower+1"))
                if sl.upper is not None and sl.lower is None and sl.step is None:
                    s2 = (sl.upper.lineno, sl.upper.col_offset, sl.upper.end_lineno, sl.upper.end_col_offset)
                    out.append(s2 + ("(" + ast.unparse(sl.upper) + ") - 1", "slice upper-1"))
        for child in ast.iter_child_nodes(node):
            if isinstance(node, (ast.FunctionDef, ast.AsyncFunctionDef)) and (child in node.decorator_list or child is node.returns):
                continue
            if isinstance(node, ast.AnnAssign) and child is node.annotation:
                continue
            visit(child, parents + [node])

    visit(tree, [])
    return out


def apply_mutant(source: str, m):
    l1, c1, l2, c2, text, _ = m
    lines = source.split("\n")
    # ast columns are UTF-8 byte offsets
    def cut(line, col):
        return line.encode("utf-8")[:col].decode("utf-8"), line.encode("utf-8")[col:].decode("utf-8")
    head, _ = cut(lines[l1 - 1], c1)
    _, tail = cut(lines[l2 - 1], c2)
    lines[l1 - 1:l2] = [head + text + tail]
    return "\n".join(lines)


# ---------------------------------------------------------------------- running
def make_scratch(root):
    d = tempfile.mkdtemp(prefix="m", dir=root)
    shutil.copytree(os.path.join(REPO, "numpoly"), os.path.join(d, "numpoly"), ignore=shutil.ignore_patterns("__pycache__", "*.c"))
    shutil.copytree(os.path.join(REPO, "test"), os.path.join(d, "test"), ignore=shutil.ignore_patterns("__pycache__"))
    for f in ("conftest.py", "pyproject.toml"):
        shutil.copy(os.path.join(REPO, f), d)
    return d


def run_tests(d):
    env = dict(os.environ, PYTHONPATH=d, PYTHONDONTWRITEBYTECODE="1")
    try:
        p = subprocess.run(["/venv/bin/python", "-m", "pytest", "-q", "-x", "-p", "no:cacheprovider", "--timeout=120", "test",
                            "--deselect", "test/test_array_function.py::test_count_nonzero"],
                           cwd=d, env=env, capture_output=True, text=True, errors="replace", timeout=600)
    except subprocess.TimeoutExpired:
        return False
    return p.returncode == 0


def run_checks(d, props, seed=0):
    caught = {}
    for pid in props:
        env = dict(os.environ, VERIF_REPO=d, VERIF_EVIDENCE_DIR=os.path.join(d, "ev"), VERIF_REPLAY_DIR=os.path.join(d, "replays"),
                   VERIF_SEED=str(seed), PYTHONDONTWRITEBYTECODE="1")
        try:
            p = subprocess.run([os.path.join(VERIF, "bin", "check"), pid, "--tier", "quick"], env=env, capture_output=True, text=True,
                               errors="replace", timeout=1500)
            lines = [ln for ln in p.stdout.splitlines() if ln.startswith("VIOLATION")]
            caught[pid] = {"rc": p.returncode, "violations": len(lines), "first": (lines[0][:160] if lines else ""),
                           "tail": p.stdout.strip().splitlines()[-1][:200] if p.stdout.strip() else p.stderr[-300:]}
        except subprocess.TimeoutExpired:
            caught[pid] = {"rc": -1, "violations": 0, "first": "", "tail": "timeout"}
        if caught[pid]["rc"] == 1:
            break                                   # one catching check is enough
    return caught


def one(args):
    try:
        return _one(args)
    except Exception as exc:                      # keep the campaign going
        return {"file": args[0], "idx": args[1], "line": args[2][0], "desc": args[2][5], "status": "tool_error", "error": repr(exc)[:300]}


def _one(args):
    rel, idx, m, root, seed = args
    d = make_scratch(root)
    try:
        path = os.path.join(d, rel)
        src = open(path).read()
        new = apply_mutant(src, m)
        try:
            ast.parse(new)
        except SyntaxError:
            return {"file": rel, "idx": idx, "line": m[0], "desc": m[5], "status": "syntax"}
        open(path, "w").write(new)
        old_line = src.split("\n")[m[0] - 1].strip()
        new_line = new.split("\n")[m[0] - 1].strip()
        rec = {"file": rel, "idx": idx, "line": m[0], "desc": m[5], "old": old_line, "new": new_line}
        if not run_tests(d):
            rec["status"] = "killed_by_tests"
            return rec
        res = run_checks(d, props_for(rel), seed)
        rec["checks"] = res
        rec["status"] = "caught" if any(r["rc"] == 1 for r in res.values()) else (
            "machinery" if any(r["rc"] not in (0, 1) for r in res.values()) else "survived")
        return rec
    finally:
        shutil.rmtree(d, ignore_errors=True)


def main():
    ap = argparse.ArgumentParser()
    ap.add_argument("mode", choices=["list", "run"])
    ap.add_argument("files", nargs="+")
    ap.add_argument("--max", type=int, default=20, help="mutants per file (sampled, seeded)")
    ap.add_argument("--jobs", type=int, default=3)
    ap.add_argument("--out", default="/tmp/mutation-results.jsonl")
    ap.add_argument("--seed", type=int, default=0)
    a = ap.parse_args()
    tasks = []
    root = tempfile.mkdtemp(prefix="numpoly-mut-")
    for rel in a.files:
        src = open(os.path.join(REPO, rel)).read()
        ms = enumerate_mutants(src)
        if a.mode == "list":
            for i, m in enumerate(ms):
                print(rel, i, m[0], m[5], "->", m[4][:60])
            continue
        rng = random.Random("%s/%d" % (rel, a.seed))
        idxs = list(range(len(ms)))
        rng.shuffle(idxs)
        for i in sorted(idxs[:a.max]):
            tasks.append((rel, i, ms[i], root, a.seed))
    if a.mode == "list":
        shutil.rmtree(root, ignore_errors=True)
        return 0
    import multiprocessing
    try:
        with multiprocessing.Pool(a.jobs) as pool, open(a.out, "a") as fh:
            for rec in pool.imap_unordered(one, tasks):
                fh.write(json.dumps(rec) + "\n")
                fh.flush()
                print("%-14s %s:%d [%s] %s  =>  %s" % (rec["status"], rec["file"], rec["line"], rec["desc"],
                                                    rec.get("old", "")[:70], rec.get("new", "")[:70]), flush=True)
    finally:
        shutil.rmtree(root, ignore_errors=True)
    return 0


if __name__ == "__main__":
    sys.exit(main())
