"""Parallel execution of generation / replay tasks (one fresh interpreter per
worker process, options reset before every trace)."""
from __future__ import annotations

import importlib
import multiprocessing
import os


_POISON = {"tried": False, "on": False}


def install_poison():
    """Install the 0xA5-filling numpy allocator (native/poisonalloc.c) in this process."""
    if not _POISON["tried"]:
        _POISON["tried"] = True
        here = os.path.dirname(os.path.dirname(os.path.abspath(__file__)))
        import sys
        sys.path.insert(0, os.path.join(here, "build"))
        try:
            import poisonalloc
            _POISON["on"] = bool(poisonalloc.install())
        except Exception:  # noqa: BLE001 - without the shim the poison clause is simply never triggered
            _POISON["on"] = False
    return _POISON["on"]


def _run(task):
    os.environ.setdefault("PYTHONHASHSEED", "0")
    install_poison()
    kind = task[0]
    if kind == "driver":
        _, name, seed, start, count, prop, kw = task
        mod = importlib.import_module("harness.drivers." + name)
        return mod.generate(seed, count, prop=prop, start=start, **kw)
    if kind == "replay":
        _, fn_name, items, prop, start, kw = task
        from harness import replay
        fn = getattr(replay, fn_name)
        return [fn(item, "%s-%s-%06d" % (prop, fn_name, start + i), prop, start + i, **kw)
                for i, item in enumerate(items)]
    raise ValueError(kind)


def driver_tasks(name, seed, total, prop, kw=None, chunk=None, nproc=16):
    kw = kw or {}
    chunk = chunk or max(1, min(200, (total + nproc - 1) // nproc))
    return [("driver", name, seed, s, min(chunk, total - s), prop, kw) for s in range(0, total, chunk)]


def replay_tasks(fn_name, items, prop, kw=None, chunk=200):
    kw = kw or {}
    return [("replay", fn_name, items[s:s + chunk], prop, s, kw) for s in range(0, len(items), chunk)]


def run_tasks(tasks, nproc=16):
    if not tasks:
        return []
    ctx = multiprocessing.get_context("fork")
    with ctx.Pool(processes=min(nproc, len(tasks)), maxtasksperchild=50) as pool:
        out = []
        for traces in pool.imap(_run, tasks):
            out.extend(traces)
    return out
