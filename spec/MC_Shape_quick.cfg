SPECIFICATION Spec
CONSTANTS
  Tier = "quick"
INVARIANT BasicIndexTotal
INVARIANT TransposeIsPermutation
CHECK_DEADLOCK FALSE
