----------------------------- MODULE MC_Algebra -----------------------------
(***************************************************************************)
(* Bounded model for C02 and C06: ordered pairs of a universe of small     *)
(* polynomials in q0, q1 and an evaluation point.  TLC checks on the       *)
(* specification's own operators that differentiation is linear, obeys the *)
(* product rule and has commuting mixed partials, and that evaluation is a *)
(* ring homomorphism, that staged evaluation equals one-shot evaluation    *)
(* and that the swap q0 <-> q1 is an involution.  The pairs are replayed   *)
(* on derivative / gradient / hessian and on call with every binding form. *)
(***************************************************************************)
EXTENDS Poly, TLC

CONSTANTS MaxTerms, Tier

VARIABLES vec
CoefSet == IF Tier = "quick" THEN {-1, 2} ELSE {-1, 1, 2}
Rows == {<<0, 0>>, <<1, 0>>, <<0, 1>>, <<1, 1>>, <<2, 0>>, <<0, 2>>}
Reps == UNION {[S -> CoefSet] : S \in {T \in SUBSET Rows : Cardinality(T) <= MaxTerms}}
RowMonoD(r) == MNorm([n \in {0, 1} |-> r[n + 1]])
RepPoly(f) == [m \in {RowMonoD(r) : r \in DOMAIN f} |-> NInt(f[CHOOSE r \in DOMAIN f : RowMonoD(r) = m])]
Points == {<<0, 1>>, <<-1, 2>>, <<3, -2>>}

Init == vec = [kind |-> "none"]
Next == \/ vec.kind = "none" /\ \E a \in Reps : vec' = [kind |-> "half", a |-> a]
        \/ vec.kind = "half" /\ \E b \in Reps, p \in Points : vec' = [kind |-> "pair", a |-> vec.a, b |-> b, x |-> p[1], y |-> p[2]]
Spec == Init /\ [][Next]_vec

A == RepPoly(vec.a)
Bp == RepPoly(vec.b)
Sub(x, y) == (0 :> EConst(NInt(x))) @@ (1 :> EConst(NInt(y)))
DerivativeLaws ==
  vec.kind = "pair" =>
    \A n \in {0, 1} :
       /\ EDeriv(EAdd(A, Bp), n) = EAdd(EDeriv(A, n), EDeriv(Bp, n))                              \* linear
       /\ EDeriv(EMul(A, Bp), n) = EAdd(EMul(EDeriv(A, n), Bp), EMul(A, EDeriv(Bp, n)))          \* product rule
       /\ EDeriv(EDeriv(A, 0), 1) = EDeriv(EDeriv(A, 1), 0)                                       \* mixed partials
       /\ (n \notin ENames(A) => EDeriv(A, n) = EZero)
EvaluationLaws ==
  vec.kind = "pair" =>
    LET s == Sub(vec.x, vec.y)
        swap == (0 :> ETerm(NOne, MVar(1))) @@ (1 :> ETerm(NOne, MVar(0)))
    IN /\ ESubst(EMul(A, Bp), s) = EMul(ESubst(A, s), ESubst(Bp, s))                             \* homomorphism
       /\ ESubst(EAdd(A, Bp), s) = EAdd(ESubst(A, s), ESubst(Bp, s))
       /\ ESubst(ESubst(A, (0 :> EConst(NInt(vec.x)))), (1 :> EConst(NInt(vec.y)))) = ESubst(A, s)   \* staged = one-shot
       /\ ESubst(ESubst(A, swap), swap) = A                                                      \* swap is an involution
       /\ EIsConst(ESubst(A, s))
=============================================================================
