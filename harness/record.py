"""Recorder: executes calls on the real numpoly and logs one event per public
call (DESIGN Appendix C).  The log is judged by spec/Trace.tla; this module
never decides whether a result is right."""
from __future__ import annotations

import logging
import signal
import time

import numpy

from . import project as P

OPTION_KEYS = (
    "default_varname", "display_graded", "display_reverse", "display_inverse",
    "display_exponent", "display_multiply", "force_number_suffix", "retain_names",
    "retain_coefficients", "sort_graded", "sort_reverse", "varname_filter",
)


logging.getLogger("numpoly").setLevel(logging.ERROR)      # numpoly logs a warning on every numpy.savetxt of a polynomial
TIMEOUTS = {"seen": 0}     # time-outs observed in this worker process
PRELUDE = None      # optional callable(recorder) run when a trace starts (C15: option settings)


class CallTimeout(BaseException):
    """Raised by the watchdog.  Not an `Exception`: code under test that catches `Exception` must not swallow it;
    the timer keeps firing every second after the first expiry in case something does."""


class TraceTooLarge(Exception):
    """A result grew beyond what is worth judging (terms x elements); the trace ends before that event."""

    def __init__(self, recorder):
        super().__init__("trace %s stopped: result too large" % recorder.id)
        self.recorder = recorder


HEAVY_TO_JUDGE = {"arith", "unary", "call", "deriv", "reduce", "polydiv"}     # judged by multiplying polynomials out
WEIGHT_LIMIT = 1500       # coefficient entries in the results of one call (zero terms kept under retain_coefficients pile up)


WATCH = {"armed": False}


def _alarm(signum, frame):
    if WATCH["armed"]:
        raise CallTimeout()


def opts_now() -> dict:
    import numpoly
    o = numpoly.get_options()
    out = {}
    for k in sorted(o):
        v = o[k]
        out[k] = v if isinstance(v, (bool, str)) else repr(v)
    return out


def reset_options():
    import numpoly
    numpoly.set_options(**numpoly.get_options(defaults=True))


class Extra:
    """Result of an action plus extra observation fields for the event."""

    def __init__(self, value, **fields):
        self.value = value
        self.fields = fields


class Multi(list):
    """A result that is a sequence of separate values (one register each)."""


class Recorder:
    """One trace: SSA registers of real objects + the event log."""

    def __init__(self, trace_id: str, prop: str, seed: int = 0, timeout_s: float = 90.0):
        self.id = trace_id
        self.prop = prop
        self.seed = seed
        self.regs = []          # real python objects
        self.events = []
        # the watchdog separates "does not come back" from "slow": some legal calls take tens of seconds on a loaded
        # machine (substituting polynomials under retain_coefficients=True); after a time-out in this process the
        # later calls get a short leash so that a library that hangs everywhere cannot stall a whole check
        self.timeout_s = timeout_s if TIMEOUTS["seen"] == 0 else min(timeout_s, 5.0)
        self.meta = {}
        self.state = {"cms": []}    # harness-side state actions may need (open context managers)
        if PRELUDE is not None:
            PRELUDE(self)

    # registers are 1-based in the log (TLA+ sequences)
    def obj(self, r: int):
        return self.regs[r - 1]

    def new(self, obj, note: str = "") -> int:
        self.regs.append(obj)
        ev = {"act": "new", "prop": self.prop, "args": [], "out": "ret",
              "res": [P.project(obj)], "digests": [P.digest(o) for o in self.regs[:-1]],
              "targets": [], "after": [], "opts": opts_now(), "note": note, "kept": True}
        self.events.append(ev)
        return len(self.regs)

    def call(self, act: str, _callable, args=(), prop=None, targets=(), keep=True, **params):
        """Run fn(*objects of args) on the real library; log the event.
        Returns the list of new register numbers (empty when it raised)."""
        objs = [self.obj(a) for a in args]
        nbefore = len(self.regs)
        t0 = time.perf_counter()
        old = signal.signal(signal.SIGALRM, _alarm)
        signal.setitimer(signal.ITIMER_REAL, self.timeout_s, 1.0)
        out = "ret"
        pending_extra = None
        try:
            try:
                WATCH["armed"] = True
                result = _callable(*objs)
            finally:
                WATCH["armed"] = False
                signal.setitimer(signal.ITIMER_REAL, 0)
                signal.signal(signal.SIGALRM, old)
        except CallTimeout:
            out, result = "timeout", None
            if act != "any":             # the frame driver calls division without the loop observer: its time-outs are expected
                TIMEOUTS["seen"] += 1
        except Exception as exc:  # noqa: BLE001 - every exception is an observation
            out, result = "raise", exc
            pending_extra = getattr(exc, "verif_fields", None)       # observations an action made before the library raised
        ms = (time.perf_counter() - t0) * 1000.0
        extra = {}
        if out == "raise" and pending_extra:
            extra = dict(pending_extra)
        if isinstance(result, Extra):
            extra, result = result.fields, result.value
        if out == "ret":
            results = list(result) if isinstance(result, Multi) or (
                isinstance(result, (tuple, list)) and params.get("_multi")) else [result]
            res = [P.project(r) for r in results]
        elif out == "raise":
            results, res = [], [P.project_exception(result)]
        else:
            results, res = [], [{"kind": "timeout", "poison": False, "digest": "", "carrier": "timeout"}]
        digests = [P.digest(o) for o in self.regs[:nbefore]]
        new_regs = []
        if keep:
            for r in results:
                self.regs.append(r)
                new_regs.append(len(self.regs))
        ev = {"act": act, "prop": prop or self.prop, "args": list(args), "out": out, "res": res,
              "digests": digests, "targets": list(targets),
              "after": [P.project(self.obj(t)) for t in targets], "opts": opts_now(),
              "ms": round(ms, 2), "kept": bool(keep)}
        for k, v in params.items():
            if not k.startswith("_"):
                ev[k] = v
        ev.update(extra)
        weight = sum(len(r.get("rows", ())) * max(1, len(r["coefs"][0]) if r.get("coefs") else 1) for r in res if r.get("kind") == "poly")
        if weight > WEIGHT_LIMIT and act in HEAVY_TO_JUDGE and self.events:
            # the trace ends BEFORE this event: multiplying out polynomials of thousands of terms in TLA+ takes TLC hours
            self.meta["truncated"] = "result of event %d would have %d coefficient entries" % (len(self.events) + 1, weight)
            raise TraceTooLarge(self)
        self.events.append(ev)
        return new_regs

    def do(self, act: str, args=(), prop=None, targets=(), keep=True, **params):
        """Perform an action of the action table (harness/actions.py)."""
        from . import actions
        todo = actions.perform(act, params, self.state)
        return self.call(act, todo, args, prop=prop, targets=targets, keep=keep, **params)

    def to_json(self) -> dict:
        # leave blocks the trace still has open now (harness-side, after the last event): a generator based
        # context manager that is merely dropped restores its saved options whenever it is garbage collected,
        # i.e. in the middle of some later trace
        while self.state["cms"]:
            try:
                self.state["cms"].pop().__exit__(None, None, None)
            except Exception:  # noqa: BLE001
                pass
        d = {"id": self.id, "prop": self.prop, "seed": self.seed, "events": self.events}
        d.update(self.meta)
        return d
