"""C14 driver: random histories of option calls over all twelve real option keys,
interleaved with a few polynomial operations (whose results must not depend on them)."""
from __future__ import annotations

import random

from .. import gen
from ..project import build_poly
from ..record import Recorder, reset_options

VALUES = {
    "default_varname": ["q", "x"],
    "display_graded": [True, False], "display_reverse": [True, False], "display_inverse": [True, False],
    "display_exponent": ["**", "^"], "display_multiply": ["*", " "],
    "force_number_suffix": [True, False], "retain_names": [True, False],
    "retain_coefficients": [True, False], "sort_graded": [True, False], "sort_reverse": [True, False],
    "varname_filter": [r"q\d+", r".+"],
}
# keys that are safe to change while polynomial operations run in the same trace
SAFE = ("display_graded", "display_reverse", "display_inverse", "display_exponent", "display_multiply",
        "retain_names", "retain_coefficients", "sort_graded", "sort_reverse")
BAD_KEYS = ("retain_name", "sort", "Display_graded", "unknown_option", "q")
THROWN = ("ValueError", "KeyError", "ZeroDivisionError", "RuntimeError")


def rand_kw(rng, keys, lo=1, hi=3):
    ks = rng.sample(keys, rng.randint(lo, min(hi, len(keys))))
    return {k: rng.choice(VALUES[k]) for k in ks}


def one_trace(rng, tid, prop, with_ops=True, length=None):
    reset_options()
    rec = Recorder(tid, prop)
    keys = SAFE if with_ops else tuple(VALUES)
    polys = []
    if with_ops:
        for _ in range(2):
            polys.append(rec.new(build_poly(gen.rand_poly_spec(rng, shape=rng.choice([(), (2,)]),
                                                                names=(0, 1), max_terms=3, max_exp=2))))
    depth = 0
    n = length or rng.randint(4, 40)
    for _ in range(n):
        c = rng.random()
        if c < 0.22 and depth < 6:
            bad = [rng.choice(BAD_KEYS)] if rng.random() < 0.2 else []
            kw = rand_kw(rng, keys, 0 if bad else 1, 3)
            rec.do("enter", [], keep=False, kw=kw, bad=bad)
            if not bad:
                depth += 1
        elif c < 0.38 and depth > 0:
            rec.do("exit", [], keep=False)
            depth -= 1
        elif c < 0.5 and depth > 0:
            rec.do("exit_exc", [], keep=False, thrown=rng.choice(THROWN))
            depth -= 1
        elif c < 0.7:
            bad = [rng.choice(BAD_KEYS)] if rng.random() < 0.25 else []
            kw = rand_kw(rng, keys, 0 if bad else 1, 3)
            rec.do("set_options", [], keep=False, kw=kw, bad=bad)
        elif c < 0.78:
            rec.do("get_mutate", [], keep=False, clear=rng.random() < 0.5)
        elif c < 0.84:
            rec.do("get_defaults", [], keep=False)
        elif with_ops and polys:
            a, b = rng.choice(polys), rng.choice(polys)
            new = rec.do("arith", [a, b], op=rng.choice(["add", "sub", "mul"]), spelling="operator", prop="C15")
            polys.extend(new)
            if len(polys) > 6:
                polys.pop(0)
    # leave every open block (half of them by exception), as a program would
    while depth > 0:
        if rng.random() < 0.5:
            rec.do("exit", [], keep=False)
        else:
            rec.do("exit_exc", [], keep=False, thrown=rng.choice(THROWN))
        depth -= 1
    rec.do("get_mutate", [], keep=False, clear=False)
    reset_options()
    return rec.to_json()


def generate(seed, n, prop="C14", start=0, **kw):
    out = []
    for i in range(start, start + n):
        rng = random.Random("options/%d/%d" % (seed, i))
        out.append(one_trace(rng, "%s-options-s%d-%05d" % (prop, seed, i), prop,
                             with_ops=(i % 2 == 0), **kw))
    return out
