"""Which drivers and bounded models decide which property, and their budgets."""
from __future__ import annotations

import os

from . import pool, replay, tlc

# per property: drivers = [(driver module, {"quick": n traces, "thorough": n}, kwargs)]
#               models  = [{module, cfg: {tier: cfg name}, replay: function in harness.replay, leaf: predicate name,
#                           limit: {tier: max programs replayed}}]
CATALOG = {
    "C01": {
        "drivers": [("ring", {"quick": 500, "thorough": 20000}, {})],
        "models": [{"module": "MC_Ring", "cfg": {"quick": "MC_Ring_quick", "thorough": "MC_Ring_thorough"},
                    "replay": "run_ring_program", "leaf": "has_op",
                    "limit": {"quick": 6000, "thorough": 400000}}],
    },
}

# properties whose clause is evaluated on every event of every trace run the whole catalogue
GLOBAL_OWNERS = ("C03", "C12", "C14", "C17")
CATALOGUE_SHARE = {"quick": 0.25, "thorough": 0.25}


def drivers_for(pid: str, tier: str):
    out = []
    for name, sizes, kw in CATALOG[pid].get("drivers", []):
        out.append((name, sizes[tier], dict(kw)))
    if pid in GLOBAL_OWNERS:
        for other, cfg in sorted(CATALOG.items()):
            if other == pid:
                continue
            for name, sizes, kw in cfg.get("drivers", []):
                n = max(20, int(sizes[tier] * CATALOGUE_SHARE[tier]))
                k = dict(kw)
                k["_prop"] = other
                out.append((name, n, k))
    return out


def run_model_stage(pid: str, m: dict, tier: str, seed: int, wd: str):
    """TLC on one bounded model; returns (stats for the evidence, replay tasks)."""
    cfg = m["cfg"][tier]
    dump = os.path.join(wd, cfg + ".dump") if m.get("replay") else None
    res = tlc.run_model(m["module"], cfg, wd, dump=dump, timeout=m.get("timeout", 3000))
    if res["violated"]:
        log = os.path.join(wd, cfg + ".tlc.log")
        with open(log, "w") as fh:
            fh.write(res["out"])
        if not m.get("violation_expected"):
            raise tlc.MachineryError(
                "an invariant of the specification itself failed in bounded model %s: the oracle is wrong, "
                "not the implementation.\n%s" % (cfg, tlc._tail(res["out"], 60)))
    stats = {"model": m["module"], "config": cfg, "distinct": res["distinct"], "generated": res["generated"],
             "depth": res["depth"], "wall_s": round(res["wall_s"], 1), "completed": res["completed"],
             "actions": {k: v for k, v in res["coverage"].items() if k.startswith(m["module"] + ".")}}
    for act in m.get("required_actions", []):
        c = stats["actions"].get("%s.%s" % (m["module"], act))
        if not c or c["generated"] == 0:
            raise tlc.MachineryError("action %s of %s was never taken: the model is vacuous" % (act, cfg))
    tasks = []
    if dump:
        leaf = getattr(replay, "leaf_" + m["leaf"]) if m.get("leaf") else None
        progs = list(replay.leaf_programs(dump + ".dump" if not os.path.exists(dump) else dump,
                                          var=m.get("var", "prog"), is_leaf=leaf))
        limit = m["limit"][tier]
        stats["programs"] = len(progs)
        if len(progs) > limit:
            # deterministic thinning by seed: every k-th program, offset by the seed
            k = (len(progs) + limit - 1) // limit
            progs = progs[seed % k::k]
        stats["programs_replayed"] = len(progs)
        tasks = pool.replay_tasks(m["replay"], progs, pid, kw=m.get("kw"))
        os.remove(dump if os.path.exists(dump) else dump + ".dump")
    return stats, tasks
