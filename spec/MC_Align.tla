------------------------------ MODULE MC_Align ------------------------------
(***************************************************************************)
(* Bounded model for C04: ordered pairs of a universe of small polynomial  *)
(* arrays whose name tuples are sorted, unsorted, overlapping, disjoint    *)
(* and ordered differently as numbers and as strings (q2 / q10), with and  *)
(* without all-zero terms, over shapes that broadcast.  TLC checks on the  *)
(* constructive alignment of PolyArray.tla that alignment never changes    *)
(* the polynomial denoted (up to broadcasting), yields one common layout   *)
(* and is idempotent; every pair is replayed on the alignment functions.   *)
(***************************************************************************)
EXTENDS PolyArray

CONSTANTS Tier

VARIABLES vec
NameTuples == IF Tier = "quick" THEN {<<0>>, <<1>>, <<0, 1>>, <<1, 0>>, <<2, 10>>, <<10, 2>>}
              ELSE {<<0>>, <<1>>, <<2>>, <<0, 1>>, <<1, 0>>, <<0, 2>>, <<2, 10>>, <<10, 2>>, <<0, 1, 2>>, <<2, 0, 1>>, <<1, 2, 0>>}
RowsFor(w) == IF w = 1 THEN {<<<<1>>>>, <<<<0>>, <<2>>>>}
              ELSE IF w = 2 THEN {<<<<1, 0>>, <<0, 1>>>>, <<<<0, 0>>, <<1, 1>>>>, <<<<0, 2>>>>}
              ELSE {<<<<1, 0, 0>>, <<0, 0, 1>>>>, <<<<0, 1, 1>>>>}
Shapes == IF Tier = "quick" THEN {<<>>, <<2>>} ELSE {<<>>, <<2>>, <<1, 2>>, <<2, 1>>}
\* zero: index of the row whose coefficients are all zero (0: none)
ZeroChoices(n) == IF Tier = "quick" THEN {0, 1} ELSE 0..n
Operands == UNION {UNION {{[names |-> nm, rows |-> rw, shape |-> s, zero |-> z] : s \in Shapes, z \in ZeroChoices(Len(rw))} :
                             rw \in RowsFor(Len(nm))} : nm \in NameTuples}

Init == vec = [kind |-> "none"]
Next == \/ vec.kind = "none" /\ \E a \in Operands : vec' = [kind |-> "half", a |-> a]
        \/ vec.kind = "half" /\ \E b \in Operands :
              /\ BroadcastOK2(vec.a.shape, b.shape)
              /\ vec' = [kind |-> "pair", a |-> vec.a, b |-> b]
Spec == Init /\ [][Next]_vec

\* coefficient of row r at element k: distinct small integers, zero in the chosen row
CoefAt(o, r, k) == IF o.zero = r THEN 0 ELSE (IF (r + k) % 2 = 0 THEN 2 ELSE -1) * r
Triple(o) == [names |-> o.names, rows |-> o.rows,
              coefs |-> [r \in 1..Len(o.rows) |-> [k \in 1..Size(o.shape) |-> NInt(CoefAt(o, r, k))]]]
TA == Triple(vec.a)
TB == Triple(vec.b)
Aligned == AlignAllT(<<TA, TB>>, <<vec.a.shape, vec.b.shape>>)
Common == BShape2(vec.a.shape, vec.b.shape)

DenPreserved ==
  vec.kind = "pair" =>
    /\ TripleDen(Aligned[1], Common) = DBroadcast(TripleDen(TA, vec.a.shape), Common)
    /\ TripleDen(Aligned[2], Common) = DBroadcast(TripleDen(TB, vec.b.shape), Common)
CommonLayout ==
  vec.kind = "pair" =>
    /\ Aligned[1].names = Aligned[2].names /\ Aligned[1].rows = Aligned[2].rows
    /\ Distinct(Aligned[1].rows)
    /\ \A i \in 1..2 : \A r \in 1..Len(Aligned[i].rows) : Len(Aligned[i].coefs[r]) = Size(Common)
Idempotent ==
  vec.kind = "pair" => AlignAllT(Aligned, <<Common, Common>>) = Aligned
\* aligning names alone, or rows alone, keeps each operand's own shape and polynomial
StepsPreserve ==
  vec.kind = "pair" =>
    LET all == UnionNames(<<TA, TB>>)
        na == AlignNamesT(TA, all)
    IN /\ TripleDen(na, vec.a.shape) = TripleDen(TA, vec.a.shape)
       /\ Len(na.rows) = Len(TA.rows)
=============================================================================
