SPECIFICATION Spec
CONSTANTS
  MaxSeeds = 3
  MaxOps = 0
  Universe = "laws"
INVARIANT Commutative
INVARIANT Associative
INVARIANT Distributive
INVARIANT Identities
CHECK_DEADLOCK FALSE
