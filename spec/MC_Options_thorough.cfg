SPECIFICATION Spec
CONSTANTS
  MaxDepth = 3
  MaxLen = 6
  NKeys = 2
VIEW view
INVARIANT TypeOK
INVARIANT OutermostIsBase
INVARIANT UnmodelledKeysConstant
PROPERTY RestoreOnExit
PROPERTY RestoreToBase
PROPERTY BadKeyChangesNothing
PROPERTY OnlyGivenKeysChange
PROPERTY EnterPushes
PROPERTY ReadsChangeNothing
CHECK_DEADLOCK FALSE
