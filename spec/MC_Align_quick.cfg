SPECIFICATION Spec
CONSTANTS
  Tier = "quick"
INVARIANT DenPreserved
INVARIANT CommonLayout
INVARIANT Idempotent
INVARIANT StepsPreserve
CHECK_DEADLOCK FALSE
