SPECIFICATION Spec
CONSTANTS
  Rows = 2
  Cols = 4
  MaxEntry = 2
  MaxDim = 2
  MaxBound = 3
INVARIANT OrderIsStrictTotal
INVARIANT IndexSetLaws
CHECK_DEADLOCK FALSE
