"""Growth driver: public API that no listed property names yet (polynomial_from_roots,
apply_along_axis, result_type, any / all / count_nonzero on non-constant polynomials).
Events are owned by the pseudo-property GROW: every check that runs the catalogue
evaluates the global clauses on them; their own rejections are reported as notes."""
from __future__ import annotations

import random

import numpy

from .. import gen
from ..project import build_poly
from ..record import Recorder, reset_options
from .dtype import DTYPES, poly_of


def one_trace(rng, tid, prop):
    reset_options()
    rec = Recorder(tid, prop)
    for _ in range(rng.randint(3, 6)):
        c = rng.random()
        if c < 0.25:
            n = rng.randint(1, 4)
            roots = rec.new(numpy.array([rng.choice([-2, -1, 0, 1, 2, 3]) for _ in range(n)], dtype=rng.choice(["int64", "float64"])))
            rec.do("from_roots", [roots], keep=False)
        elif c < 0.5:
            shape = rng.choice([(2,), (2, 2), (2, 3), (1, 2, 2)])
            a = rec.new(build_poly(gen.rand_poly_spec(rng, shape=shape, names=rng.choice([(0, 1), (1, 3), (2,)]), kind="int",
                                                      max_terms=2, max_exp=2, min_terms=1)))
            rec.do("apply_along_axis", [a], keep=False, fn=rng.choice(["sum", "prod"]), axis=rng.randrange(-len(shape), len(shape)),
                   spelling=rng.choice(["numpoly", "numpy"]))
        elif c < 0.75:
            d1, d2 = rng.choice(DTYPES), rng.choice(DTYPES)
            a = rec.new(poly_of(rng, d1))
            b = rec.new(poly_of(rng, d2) if rng.random() < 0.5 else numpy.zeros(2, dtype=d2))
            rec.do("result_type", [a, b], keep=False, spelling=rng.choice(["numpoly", "numpy"]), dtype_name="")
        else:
            shape = rng.choice([(), (3,), (2, 2)])
            a = rec.new(build_poly(gen.rand_poly_spec(rng, shape=shape, names=(0, 1), kind="int", max_terms=2, max_exp=2)))
            rec.do("logical", [a], keep=False, fn=rng.choice(["any", "all", "count_nonzero"]), spelling=rng.choice(["numpoly", "numpy"]))
    return rec.to_json()


def generate(seed, n, prop="GROW", start=0, **kw):
    out = []
    for i in range(start, start + n):
        rng = random.Random("grow/%d/%d" % (seed, i))
        out.append(one_trace(rng, "GROW-grow-s%d-%05d" % (seed, i), "GROW", **kw))
    return out
