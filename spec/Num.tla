------------------------------- MODULE Num -------------------------------
(***************************************************************************)
(* Exact numbers for the numpoly specification.                            *)
(*                                                                         *)
(* TLC integers are 32 bit and there are no reals, so coefficients are     *)
(* modelled as Gaussian dyadic rationals (re + i*im) / 2^k over arbitrary  *)
(* precision integers.  Every finite int64 / float16..64 / complex value   *)
(* is such a number, and + - * stay inside the set, so ring arithmetic on  *)
(* coefficients is exact.  Division never happens in the specification.    *)
(*                                                                         *)
(* BigInt  == [s |-> -1|0|1, m |-> little-endian base-10^4 limbs, no       *)
(*             trailing zero limb; zero is [s |-> 0, m |-> <<>>]]          *)
(* Num     == [r |-> BigInt, i |-> BigInt, k |-> Nat] in lowest terms      *)
(*            (k = 0, or r or i odd); k < 0 tags a non-finite value        *)
(*            (nan/inf) which is equal to nothing the spec computes.       *)
(***************************************************************************)
EXTENDS Integers, Sequences, TLC

B == 10000

\* ---------------------------------------------------------------- magnitudes
RECURSIVE Trim(_)
Trim(m) == IF m = <<>> THEN m
           ELSE IF m[Len(m)] = 0 THEN Trim(SubSeq(m, 1, Len(m) - 1)) ELSE m
Limb(m, i) == IF i <= Len(m) THEN m[i] ELSE 0
MaxL(a, b) == IF Len(a) > Len(b) THEN Len(a) ELSE Len(b)

RECURSIVE AddC(_, _, _, _)
AddC(a, b, i, c) ==
  IF i > MaxL(a, b) THEN (IF c = 0 THEN <<>> ELSE <<c>>)
  ELSE LET s == Limb(a, i) + Limb(b, i) + c
       IN <<s % B>> \o AddC(a, b, i + 1, s \div B)
MagAdd(a, b) == IF a = <<>> THEN b ELSE IF b = <<>> THEN a ELSE AddC(a, b, 1, 0)

RECURSIVE SubC(_, _, _, _)
SubC(a, b, i, br) ==
  IF i > Len(a) THEN <<>>
  ELSE LET s == Limb(a, i) - Limb(b, i) - br
       IN IF s < 0 THEN <<s + B>> \o SubC(a, b, i + 1, 1)
                   ELSE <<s>> \o SubC(a, b, i + 1, 0)
MagSub(a, b) == Trim(SubC(a, b, 1, 0))            \* requires a >= b

RECURSIVE CmpFrom(_, _, _)
CmpFrom(a, b, i) == IF i = 0 THEN 0
                    ELSE IF a[i] > b[i] THEN 1
                    ELSE IF a[i] < b[i] THEN -1 ELSE CmpFrom(a, b, i - 1)
MagCmp(a, b) == IF Len(a) > Len(b) THEN 1
                ELSE IF Len(a) < Len(b) THEN -1 ELSE CmpFrom(a, b, Len(a))

RECURSIVE MulLimbC(_, _, _, _)
MulLimbC(a, d, i, c) ==                            \* 0 <= d < B
  IF i > Len(a) THEN (IF c = 0 THEN <<>> ELSE <<c>>)
  ELSE LET s == a[i] * d + c
       IN <<s % B>> \o MulLimbC(a, d, i + 1, s \div B)
RECURSIVE MulAcc(_, _, _)
MulAcc(a, b, j) ==
  IF j > Len(b) THEN <<>>
  ELSE MagAdd(MulLimbC(a, b[j], 1, 0), <<0>> \o MulAcc(a, b, j + 1))
MagMul(a, b) == IF a = <<>> \/ b = <<>> THEN <<>>
                ELSE IF Len(b) = 1 THEN Trim(MulLimbC(a, b[1], 1, 0))
                ELSE IF Len(a) = 1 THEN Trim(MulLimbC(b, a[1], 1, 0))
                ELSE Trim(MulAcc(a, b, 1))

MagEven(m) == m = <<>> \/ m[1] % 2 = 0
\* B is even, so the carry into limb i is just the parity of limb i+1
MagHalf(m) == Trim([i \in 1..Len(m) |->
                 (m[i] + (IF i < Len(m) /\ m[i + 1] % 2 = 1 THEN B ELSE 0)) \div 2])

RECURSIVE MagShl(_, _)                              \* m * 2^k
MagShl(m, k) == IF k = 0 \/ m = <<>> THEN m
                ELSE IF k >= 13 THEN MagShl(Trim(MulLimbC(m, 8192, 1, 0)), k - 13)
                ELSE Trim(MulLimbC(m, 2 ^ k, 1, 0))

RECURSIVE MagOf(_)
MagOf(n) == IF n = 0 THEN <<>> ELSE <<n % B>> \o MagOf(n \div B)

RECURSIVE MagToInt(_, _)                            \* only for small values
MagToInt(m, i) == IF i > Len(m) THEN 0 ELSE m[i] + B * MagToInt(m, i + 1)

\* ------------------------------------------------------------------- BigInt
BZ == [s |-> 0, m |-> <<>>]
BMk(s, m) == IF m = <<>> THEN BZ ELSE [s |-> s, m |-> m]
BFromInt(n) == IF n = 0 THEN BZ
               ELSE IF n > 0 THEN BMk(1, MagOf(n)) ELSE BMk(-1, MagOf(0 - n))
BIsSmall(x) == Len(x.m) <= 2                         \* |x| < 10^8
BToInt(x) == x.s * MagToInt(x.m, 1)                  \* requires BIsSmall
BAdd(x, y) ==
  IF x.s = 0 THEN y ELSE IF y.s = 0 THEN x
  ELSE IF Len(x.m) <= 2 /\ Len(y.m) <= 2 THEN BFromInt(BToInt(x) + BToInt(y))   \* native fast path
  ELSE IF x.s = y.s THEN BMk(x.s, MagAdd(x.m, y.m))
  ELSE LET c == MagCmp(x.m, y.m)
       IN IF c = 0 THEN BZ
          ELSE IF c > 0 THEN BMk(x.s, MagSub(x.m, y.m))
          ELSE BMk(y.s, MagSub(y.m, x.m))
BNeg(x) == BMk(0 - x.s, x.m)
BSub(x, y) == BAdd(x, BNeg(y))
BMul(x, y) == IF x.s = 0 \/ y.s = 0 THEN BZ
              ELSE IF Len(x.m) = 1 /\ Len(y.m) = 1 THEN BFromInt(x.s * y.s * x.m[1] * y.m[1])  \* native fast path
              ELSE BMk(x.s * y.s, MagMul(x.m, y.m))
BShl(x, k) == BMk(x.s, MagShl(x.m, k))
BCmp(x, y) ==                                        \* -1, 0, 1
  IF x.s # y.s THEN (IF x.s < y.s THEN -1 ELSE 1)
  ELSE IF x.s = 0 THEN 0
  ELSE x.s * MagCmp(x.m, y.m)
BWellFormed(x) ==
  /\ x.s \in {-1, 0, 1}
  /\ (x.s = 0) <=> (x.m = <<>>)
  /\ \A j \in 1..Len(x.m) : x.m[j] \in 0..(B - 1)
  /\ (x.m # <<>> => x.m[Len(x.m)] # 0)

\* ---------------------------------------------------------------------- Num
RECURSIVE NNorm(_, _, _)
NNorm(r, i, k) ==
  IF k = 0 THEN [r |-> r, i |-> i, k |-> 0]
  ELSE IF r.s = 0 /\ i.s = 0 THEN [r |-> BZ, i |-> BZ, k |-> 0]
  ELSE IF MagEven(r.m) /\ MagEven(i.m)
       THEN NNorm(BMk(r.s, MagHalf(r.m)), BMk(i.s, MagHalf(i.m)), k - 1)
       ELSE [r |-> r, i |-> i, k |-> k]

NZero == [r |-> BZ, i |-> BZ, k |-> 0]
NOne == [r |-> BFromInt(1), i |-> BZ, k |-> 0]
NInt(n) == [r |-> BFromInt(n), i |-> BZ, k |-> 0]
NFinite(x) == x.k >= 0
NIsZero(x) == x.k >= 0 /\ x.r.s = 0 /\ x.i.s = 0
NIsReal(x) == x.i.s = 0
NNeg(x) == [r |-> BNeg(x.r), i |-> BNeg(x.i), k |-> x.k]
NAdd(x, y) ==
  IF x.k = y.k /\ x.k = 0 THEN [r |-> BAdd(x.r, y.r), i |-> BAdd(x.i, y.i), k |-> 0]
  ELSE LET kk == IF x.k > y.k THEN x.k ELSE y.k
       IN NNorm(BAdd(BShl(x.r, kk - x.k), BShl(y.r, kk - y.k)),
                BAdd(BShl(x.i, kk - x.k), BShl(y.i, kk - y.k)), kk)
NSub(x, y) == NAdd(x, NNeg(y))
NMul(x, y) ==
  IF x.i.s = 0 /\ y.i.s = 0
  THEN (IF x.k = 0 /\ y.k = 0 THEN [r |-> BMul(x.r, y.r), i |-> BZ, k |-> 0]
        ELSE NNorm(BMul(x.r, y.r), BZ, x.k + y.k))
  ELSE NNorm(BSub(BMul(x.r, y.r), BMul(x.i, y.i)),
             BAdd(BMul(x.r, y.i), BMul(x.i, y.r)), x.k + y.k)
RECURSIVE NPow(_, _)
NPow(x, n) == IF n = 0 THEN NOne ELSE IF n = 1 THEN x
              ELSE IF n % 2 = 0 THEN LET h == NPow(x, n \div 2) IN NMul(h, h)
              ELSE NMul(x, NPow(x, n - 1))
\* real-part comparison (numpy's complex order is out of scope)
NCmp(x, y) == LET kk == IF x.k > y.k THEN x.k ELSE y.k
              IN BCmp(BShl(x.r, kk - x.k), BShl(y.r, kk - y.k))
NSign(x) == x.r.s
NWellFormed(x) ==
  /\ BWellFormed(x.r) /\ BWellFormed(x.i) /\ x.k \in Int
  /\ (x.k > 0 => ~(MagEven(x.r.m) /\ MagEven(x.i.m)))
\* n * 2^e, for building test values inside models
NDyadic(n, e) == NNorm(BFromInt(n), BZ, e)
NComplex(a, b) == [r |-> BFromInt(a), i |-> BFromInt(b), k |-> 0]
\* Closeness for places where IEEE rounding is inherent: |x - y| * 2^bits <= |y| + 2^-bits*...
\* stated on real and imaginary parts separately: |d| * 2^bits <= max(|x|,|y|) (or both tiny)
AbsB(b) == BMk(IF b.s = 0 THEN 0 ELSE 1, b.m)
NClose(x, y, bits) ==
  IF ~(NFinite(x) /\ NFinite(y)) THEN x = y
  ELSE LET kk == IF x.k > y.k THEN x.k ELSE y.k
           xr == BShl(x.r, kk - x.k) yr == BShl(y.r, kk - y.k)
           xi == BShl(x.i, kk - x.k) yi == BShl(y.i, kk - y.k)
           mag == BAdd(BAdd(AbsB(xr), AbsB(yr)), BAdd(AbsB(xi), AbsB(yi)))
           dr == AbsB(BSub(xr, yr)) di == AbsB(BSub(xi, yi))
       IN BCmp(BShl(BAdd(dr, di), bits), mag) <= 0
=============================================================================
