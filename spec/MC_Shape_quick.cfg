SPECIFICATION Spec
CONSTANTS
  Tier = "quick"
INVARIANT BasicIndexTotal
INVARIANT TransposeIsPermutation
INVARIANT ConcatIsPartition
CHECK_DEADLOCK FALSE
