------------------------------ MODULE MC_Keys ------------------------------
(***************************************************************************)
(* Bounded model for C20: single exponents across the representable range. *)
(* TLC checks that the storage-key codec is a bijection on the range (so   *)
(* distinct exponents can never share a key) and where the code points     *)
(* numpy / Python cannot store begin; every exponent is replayed through   *)
(* construction, the raw view and back, pickling, a multiplication and a   *)
(* text file (as the only key and as the last of two keys in two names).   *)
(***************************************************************************)
EXTENDS Monomial

CONSTANTS Tier

VARIABLES vec
ExpRange == IF Tier = "quick"
         THEN (0..300) \cup {137 * k : k \in 0..400} \cup {55000 + 25 * k : k \in 0..100}
              \cup {e \in SpecialExponents : e <= 57500}
         ELSE 0..57500
\* products q0**a * q0**b: all pairs with a + b <= 600 (quick: the sums around the places where the byte length of
\* the key's code point changes, thinned)
Sums == IF Tier = "quick" THEN {0, 1, 9, 59, 68, 69, 70, 127, 128, 129, 196, 197, 198, 255, 256, 257, 300, 511, 512, 600} ELSE 0..600
PairA(s) == IF Tier = "quick" THEN {a \in 0..s : a % 7 = 0 \/ a \in {1, s - 1, s, s \div 2}} ELSE 0..s
Init == vec = [kind |-> "none"]
Next == \/ vec.kind = "none" /\ \E b \in 0..57 : vec' = [kind |-> "block", b |-> b]
        \/ vec.kind = "block" /\ \E e \in {x \in ExpRange : x \div 1000 = vec.b} : vec' = [kind |-> "exp", e |-> e]
        \/ vec.kind = "none" /\ \E t \in Sums : vec' = [kind |-> "sum", s |-> t]
        \/ vec.kind = "sum" /\ \E a \in PairA(vec.s) : vec' = [kind |-> "pair", a |-> a, b |-> vec.s - a]
Spec == Init /\ [][Next]_vec

CodecInverse == vec.kind = "exp" => DecodeCp(EncodeExp(vec.e)) = vec.e
\* the guaranteed range (below 55 000) stays clear of code points that cannot be stored
GuaranteedRangeStorable == (vec.kind = "exp" /\ vec.e < 55000) => ~BadCodePoint(EncodeExp(vec.e))
\* injective: a different exponent in the range never gets the same code point
\* the key of a product is the key of the sum of the exponents: one code point, decodable, distinct from its neighbours
ProductKey == vec.kind = "pair" =>
   /\ DecodeCp(EncodeExp(vec.a + vec.b)) = vec.a + vec.b
   /\ ~BadCodePoint(EncodeExp(vec.a + vec.b))
   /\ EncodeExp(vec.a + vec.b) # EncodeExp(vec.a) \/ vec.b = 0
Injective == vec.kind = "exp" => \A d \in {vec.e - 1, vec.e + 1, vec.e + 59, vec.e - 59} : d >= 0 => EncodeExp(d) # EncodeExp(vec.e)
=============================================================================
