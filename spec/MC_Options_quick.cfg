SPECIFICATION Spec
CONSTANTS
  MaxDepth = 2
  MaxLen = 5
  NKeys = 2
VIEW view
INVARIANT TypeOK
INVARIANT OutermostIsBase
INVARIANT UnmodelledKeysConstant
PROPERTY RestoreOnExit
PROPERTY RestoreToBase
PROPERTY BadKeyChangesNothing
PROPERTY OnlyGivenKeysChange
PROPERTY EnterPushes
PROPERTY ReadsChangeNothing
CHECK_DEADLOCK FALSE
