"""C12 driver: every numeric coefficient dtype through constructors, casts and
arithmetic between dtypes; results whose terms all cancel.  Runs under the
poisoning allocator (harness/pool.py installs it in every worker)."""
from __future__ import annotations

import itertools
import random

import numpy

from .. import gen
from ..actions import gather_map
from ..project import build_poly, num
from ..record import Recorder, reset_options

DTYPES = ["bool", "int8", "int16", "int32", "int64", "uint8", "uint16", "uint32", "uint64",
          "float16", "float32", "float64", "complex64", "complex128"]
VALUES = {"b": [0, 1], "i": [0, 1, -1, 2, -3, 5], "u": [0, 1, 2, 3, 5, 200], "f": [0.0, 1.0, -1.0, 0.5, 2.0, -2.5],
          "c": [0j, 1 + 2j, -1j, 0.5 + 0j, 2 - 1j]}


def kind_of(d):
    return numpy.dtype(d).kind


def poly_of(rng, dtype, shape=None, names=None):
    shape = rng.choice([(), (2,), (2, 2), (1, 2)]) if shape is None else shape
    names = names or gen.rand_names(rng, 1, 2, pool=(0, 1, 2))
    size = int(numpy.prod(shape, dtype=int))
    rows = gen.rand_rows(rng, len(names), rng.randint(1, 3), 2)
    pool = VALUES[kind_of(dtype)]
    # all-zero terms (stored as given: build_poly does not clean) occur in every dtype
    coefs = [[pool[0]] * size if rng.random() < 0.12 else [rng.choice(pool) for _ in range(size)] for _ in rows]
    return build_poly({"shape": list(shape), "names": list(names), "rows": [list(r) for r in rows],
                       "coefs": coefs, "dtype": dtype})


def castable_values(src, dst):
    """Source values whose cast to dst numpy defines (no float->int overflow, no negative float->uint)."""
    ks, kd = kind_of(src), kind_of(dst)
    vals = list(VALUES[ks])
    if ks == "u" and kd in "iu" and numpy.dtype(dst).itemsize == 1:
        pass
    if ks in "fc" and kd == "u":
        vals = [v for v in vals if (v.real if isinstance(v, complex) else v) >= 0]
    if ks == "u" and kd == "f" and dst == "float16":
        pass
    return vals


def one_trace(rng, tid, prop):
    reset_options()
    rec = Recorder(tid, prop)
    # bind the specification's model of numpy to numpy itself
    a, b = rng.choice(DTYPES), rng.choice(DTYPES)
    rec.do("dtype", [], keep=False, fn="dtype_pair", a=a, b=b)
    src, dst = rng.choice(DTYPES), rng.choice(DTYPES)
    vals = castable_values(src, dst)
    rec.do("dtype", [], keep=False, fn="cast", frm=src, to=dst, vals=[num(numpy.dtype(src).type(v).item()) for v in vals])
    for _ in range(rng.randint(4, 8)):
        c = rng.random()
        d1 = rng.choice(DTYPES)
        if c < 0.35:
            # construct from data of dtype d1, optionally requesting dtype d2
            d2 = rng.choice(DTYPES + [""] * 6)
            how = rng.choice(["polynomial", "aspolynomial", "astype", "from_attributes", "aspolynomial_names", "polynomial_names"])
            if how == "astype" and not d2:
                d2 = rng.choice(DTYPES)
            if d2 and (kind_of(d1) in "fc" and kind_of(d2) == "u"):
                d2 = "float64"
            if rng.random() < 0.5:
                x = rec.new(poly_of(rng, d1))
            else:
                if how in ("astype", "from_attributes"):
                    how = "polynomial"
                shape = rng.choice([(), (2,), (2, 2)])
                size = int(numpy.prod(shape, dtype=int))
                x = rec.new(numpy.array([rng.choice(VALUES[kind_of(d1)]) for _ in range(size)], dtype=d1).reshape(shape))
            rec.do("dtype", [x], keep=False, fn="construct", how=how, dtype=d2, names_form=rng.randrange(3))
        elif c < 0.45:
            n = rng.randint(1, 3)
            rec.do("dtype", [], keep=False, fn="variable", how=rng.choice(["variable", "symbols"]), n=n,
                   ids=list(range(n)), dtype=d1)
        elif c < 0.8:
            d2 = rng.choice(DTYPES)
            op = rng.choice(["add", "sub", "mul"])
            if op == "sub" and (d1 == "bool" and d2 == "bool"):
                op = "add"
            base = rng.choice([(), (2,), (2, 2)])
            names = gen.rand_names(rng, 1, 2, pool=(0, 1))
            x = rec.new(poly_of(rng, d1, base, names))
            if rng.random() < 0.7:
                y = rec.new(poly_of(rng, d2, gen.broadcast_partner(rng, base), names if rng.random() < 0.6 else None))
            else:
                shape = gen.broadcast_partner(rng, base)
                size = int(numpy.prod(shape, dtype=int))
                y = rec.new(numpy.array([rng.choice(VALUES[kind_of(d2)]) for _ in range(size)], dtype=d2).reshape(shape))
            if rng.random() < 0.15:
                y = x                                  # x - x: every term cancels
                op = "sub" if d1 != "bool" else "add"
            rec.do("dtype", [x, y], keep=False, fn="arith", op=op)
            if d1 != "bool" and rng.random() < 0.5:
                # ** with a Python integer keeps the dtype of the base, for constants as for polynomials
                base_ = x if rng.random() < 0.5 else rec.new(build_poly({
                    "shape": list(base), "names": [0], "rows": [[0]],
                    "coefs": [[rng.choice(VALUES[kind_of(d1)]) for _ in range(int(numpy.prod(base, dtype=int)))]], "dtype": d1}))
                e = rec.new(rng.randint(0, 3))
                rec.do("dtype", [base_, e], keep=False, fn="arith", op="pow")
        else:
            # shape functions and indexing keep the dtype (C09's dtype clause, on every dtype)
            x = rec.new(poly_of(rng, d1, rng.choice([(2,), (2, 2), (1, 2)])))
            shape = rec.obj(x).shape
            fn, p = rng.choice([("ravel", {}), ("T", {}), ("getitem", {"index": [{"t": "int", "i": 0}], "tuple": False}),
                                ("reshape", {"shape": [-1]}), ("concatenate", {"axis": 0}), ("repeat", {"repeats": 2, "axis": 0})])
            ops = [x, x] if fn == "concatenate" else [x]
            params = {"fn": fn, "p": p, "spelling": "numpoly"}
            rec.do("move", ops, gather=gather_map(params, [shape] * len(ops)), model=[], **params)
            if rng.random() < 0.5:
                # diff with prepend / append of another dtype: computed in numpy's promoted dtype (signed and floating
                # dtypes only: differences of unsigned values wrap)
                from ..actions import reduce_fields
                signed = ["int8", "int16", "int32", "int64", "float32", "float64"]
                da, db = rng.choice(signed), rng.choice(signed)
                arr = rec.new(poly_of(rng, da, (3,), names=(0, 1)))
                ext = rec.new(poly_of(rng, db, rng.choice([(), (1,), (2,)]), names=(0, 1)))
                pp = {"axis": 0, "n": 1, rng.choice(["has_pre", "has_app"]): True}
                rec.do("reduce", [arr, ext], keep=False, fn="diff", p=pp, spelling=rng.choice(["numpoly", "numpy"]),
                       **reduce_fields("diff", pp))
    return rec.to_json()


def generate(seed, n, prop="C12", start=0, **kw):
    out = []
    for i in range(start, start + n):
        rng = random.Random("dtype/%d/%d" % (seed, i))
        out.append(one_trace(rng, "%s-dtype-s%d-%05d" % (prop, seed, i), prop, **kw))
    return out
