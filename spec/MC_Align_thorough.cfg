SPECIFICATION Spec
CONSTANTS
  Tier = "thorough"
INVARIANT DenPreserved
INVARIANT CommonLayout
INVARIANT Idempotent
INVARIANT StepsPreserve
CHECK_DEADLOCK FALSE
