"""Development-time tool: regenerate /verif/MANIFEST.json from the tables below
and harness/catalog.py.  Properties not (yet) claimed go to not_applicable."""
from __future__ import annotations

import json
import os
import sys

VERIF = os.path.dirname(os.path.dirname(os.path.abspath(__file__)))
sys.path.insert(0, VERIF)

ALL = ["C%02d" % i for i in range(1, 21)]

# id -> (technique, level text, design section)
CLAIMS = {
    "C01": ("TLA+ spec; TLC bounded model of ring programs (ring laws as invariants) replayed on the implementation; TLC trace validation of seeded expression trees",
            "TLC enumerates every SSA program of ring operations over a small universe of polynomial arrays, checks the commutative-ring laws on the specification's own exact arithmetic (so a wrong oracle does not survive), and every enumerated program is executed on the real numpoly; in addition seeded expression trees of depth <= 4 over the large input space (0-d..3-d broadcasting, overlapping/disjoint names, int/float/complex, scalars/lists/ndarrays on either side, array exponents) are executed and every recorded call is judged by TLC against the same specification.",
            "DESIGN.md section 6 C01"),
    "C02": ("TLA+ spec: evaluation as exact substitution of the supplied values (ESubst) over the broadcast argument shape; TLC trace validation over positional/keyword/None bindings and carriers",
            "Every call p(*args, **kwargs) / numpoly.call is judged by TLC: result shape poly.shape + broadcast(argument shapes), every entry the exact value of the substituted polynomial (big-integer arithmetic in the spec), a plain array for full numeric bindings, TypeError for unknown or doubly supplied names; arguments are Python ints (negative, > 2**16), bools, floats, complex, numpy scalars of every width, lists and arrays up to (2,1,3), and polynomials incl. swaps.",
            "DESIGN.md section 6 C02"),
    "C03": ("TLA+ spec: WellFormed on the raw observation of every returned object (global clause), Clean exactly as documented on attribute triples, the three rejection rules, rebuilding from attributes / raw view / dictionary; TLC trace validation of the whole operation catalogue",
            "WellFormed (distinct exponent rows, one coefficient array per row of the array's shape and dtype, distinct names matching the row width, storage keys and raw-view field names decoding to the rows, no out-of-range exponent) is evaluated by TLC on every value any driver of any property produces; attribute triples with zero terms, unused names, unsorted and duplicate rows, duplicate names and length mismatches go through polynomial_from_attributes / ndpoly.from_attributes / clean_attributes under all retain-flag choices and TLC demands exactly the documented rows, names and coefficients or PolynomialConstructionError; rebuilding from (exponents, coefficients, names), raw view + names (also for non-contiguous views) and todict() must reproduce shape, dtype, names and denotation.",
            "DESIGN.md section 6 C03"),
    "C04": ("TLA+ spec: representation-level postconditions of the four alignment functions, idempotence; TLC trace validation",
            "Tuples of 1-4 polynomial-likes (polynomials of int/float/complex dtype, numbers, lists, arrays) with broadcastable shapes and arbitrary name/term sets are aligned with each of the four functions; TLC checks outputs in argument order, denotation equal to the (broadcast) input, common shape, names equal to the sorted union, identical rows and keys, and that re-aligning the outputs returns identical representations; the arguments' digests are compared before/after by the global frame clause.",
            "DESIGN.md section 6 C04"),
    "C05": ("TLA+ step machine of the division loop (spec/Divide.tla) model-checked by TLC for the identity invariant and termination under the candidate rule as implemented and under a leading-term rule; loop observer + iteration cap on the real code; TLC trace validation of identity / constant divisor / exact multiple / degree / spelling agreement",
            "TLC explores the division loop as a step machine over 5120 dividend/divisor pairs: the identity dividend = q*divisor + r is an invariant of every reachable state, and termination holds under a leading-term rule but fails under the rule the code implements (a lasso is reported and kept as the design-level evidence of the recorded non-termination finding). The enumerated pairs are replayed on the real poly_divmod under a loop observer that logs the running dividend per iteration (a repeat or the cap is a non-termination verdict, not a hang); seeded dividend/divisor arrays (1-3 indeterminates, broadcasting, zero entries, constants, constructed exact multiples) are validated by TLC for the identity (exactly on dyadic data), r = 0 and true quotient for constant divisors, cofactor recovery, degree drop in one indeterminate, and equality of /, %, divmod and the function spellings.",
            "DESIGN.md section 6 C05"),
    "C06": ("TLA+ spec: formal partial derivative EDeriv on exact polynomials, gradient/hessian layouts; TLC trace validation under every retain_*/sort_* setting",
            "derivative with name / index / indeterminate designations and several variables, gradient and hessian are executed under random settings of the retain and sort options (set in the real process, tracked by the option machine); TLC recomputes the formal partial derivatives of every element and the (D,)+shape / (D,D)+shape layouts.",
            "DESIGN.md section 6 C06"),
    "C07": ("TLA+ spec of the documented total order (ECmp: sign of the coefficient difference at the largest differing monomial under sort_graded/sort_reverse); TLC trace validation of all six operators, three spellings, maximum/minimum",
            "Pairs and triples of polynomials (small random ones, perturbed copies that differ below the leading term, and polynomials with up to 30 terms of equal total degree) are compared with all six operators through operator / numpy / numpoly spellings under the four sort settings, which are set in the real process and tracked by the option machine; TLC recomputes each verdict from the TLA+ definition of the order and demands a bool array of the broadcast shape with exactly those values; maximum/minimum must return the larger/smaller operand element.",
            "DESIGN.md section 6 C07"),
    "C08": ("TLA+ spec: registries as observations, 'same result' relation between spellings, FeatureNotSupported rule for everything numpoly does not register; TLC trace validation; the complete list of overridable numpy / numpy.linalg / numpy.fft functions, ufuncs and ufunc methods is probed on every run",
            "(a) Registered operations are executed through two different spellings (operator, numpy function, numpoly function, method, ufunc.reduce / accumulate) and TLC demands identical type, shape, dtype, names and denotation, in addition to each being judged against the specification; /, % and divmod are bound to poly_divide / poly_remainder / poly_divmod in C05.  Registry sweep: every entry of FUNCTION_COLLECTION (88 names; copyto, savetxt and the like=-only creators ones / zeros / full are exercised elsewhere or outside the claim) is called on one operand set as the registered numpy callable (dispatching through the override protocol) and as the public numpoly function, and TLC demands the same type, shape, dtype, names and values (or the same exception). (b) Every public numpy function that takes part in the __array_function__ protocol (found mechanically; `like=` creators excluded), every public ufunc and the methods reduce / accumulate / outer / at / reduceat of every binary ufunc are called with a polynomial (arguments synthesised from the signature, dispatch confirmed by a spy on __array_function__): unless numpoly's registries, read at run time, map the call, TLC requires FeatureNotSupported.",
            "DESIGN.md section 6 C08"),
    "C09": ("TLA+ spec; gather maps observed from numpy on label arrays and, for the core functions, defined in TLA+ and cross-checked; TLC trace validation",
            "Every shape function / index expression is executed on arrays of pairwise distinct polynomials; the movement of positions numpy performs is observed on integer label arrays (and for reshape, transpose, concatenate and basic indexing also computed from the TLA+ gather maps of Shape.tla and compared), and TLC checks that each result element is exactly the operand element that numpy puts there, that names and dtype are preserved, plus the global clauses.",
            "DESIGN.md section 6 C09"),
    "C10": ("TLA+ spec: reductions as folds of exact polynomial + and * over index partitions, diff/ediff1d, inner/outer/matmul, det by Leibniz expansion; TLC trace validation",
            "sum/cumsum/mean/prod/diff/ediff1d/inner/outer/matmul/det are executed over 1-d..3-d polynomial arrays with every axis / axis-tuple / keepdims / n / prepend / append choice, through numpoly, numpy, method and ufunc.reduce/accumulate spellings; TLC recomputes each result as the finite sum / product of the operand elements in exact arithmetic from the TLA+ definitions and compares shape and every element (mean as the relation n*mean = sum).",
            "DESIGN.md section 6 C10"),
    "C18": ("TLA+ spec: glexsort relationally (a permutation under which the key columns are non-decreasing in the selected order), glexindex/bindex/monomial as the exact set {e : in upper truncation and not in lower} listed strictly increasing, cross_truncate by exact integer arithmetic; TLC trace validation",
            "Key matrices (up to 4 x 400) and all (start, stop, dimensions <= 4, cross-truncation norm, graded, reverse, ordering) choices with bounds <= 6 are executed; TLC enumerates the candidate exponent tuples itself and checks the returned rows for duplicates, membership (both inclusions), order, and the monomial array element by element; norms 0, 1, 2, inf are decided exactly, 0.5 and 0.8 by the bracketing L0 <= Lp <= L1.",
            "DESIGN.md section 6 C18"),
    "C19": ("TLA+ spec of leading monomial / coefficient under a monomial order, decomposition, set_dimensions, the sort-proxy relation; TLC trace validation",
            "lead_exponent/lead_coefficient (all flag choices), isconstant, tonumpy (error for non-constants), todict, decompose (slices sum to the input, one monomial per slice), set_dimensions 1..5, sortable_proxy (a permutation respecting leading exponent then leading coefficient) and argmax/argmin/amax/amin without axis are executed on arrays with zero elements, equal leading terms, negative leading coefficients and many same-degree terms; TLC recomputes every answer from the exact polynomial.",
            "DESIGN.md section 6 C19"),
    "C11": ("TLA+ spec: relational layer - numpoly's result on constant polynomials must equal numpy's result on the underlying arrays (both observed), numeric division by a non-constant polynomial must raise; TLC trace validation",
            "About 55 mirrored functions (element-wise unary and binary, comparisons, logical, rounding, isclose/allclose, floor_divide / remainder / divmod, reductions with axis / axis-tuple / keepdims, argmax / argmin, count_nonzero, nonzero, shape helpers) are called on constant polynomials of 0-3 dimensions with repeated values, negatives and zeros through numpoly and numpy spellings; the event carries numpy's own result on the raw arrays and TLC requires equal shape and values (and ndarray type / dtype for boolean and index results). true_divide / divide / floor_divide / remainder / divmod with a non-constant polynomial divisor must raise FeatureNotSupported.",
            "DESIGN.md section 6 C11"),
    "C12": ("TLA+ model of numpy's dtype promotion and casts (bound to numpy.result_type / astype on every run), exact-value casts on polynomials; poisoning numpy allocator; TLC trace validation",
            "All 14 dtypes and random ordered pairs: construction from data of a dtype, dtype= requests in polynomial / aspolynomial / polynomial_from_attributes / variable / symbols, astype, +,-,* between dtypes with and without broadcasting, shape functions and indexing; TLC demands numpy's promoted dtype (from the TLA+ promotion rules, themselves checked against numpy.result_type in the same run) and the exact values cast like numpy casts. Every worker process runs with a numpy allocator that fills fresh buffers with 0xA5, and the no-poison clause is evaluated on every result of every driver of every property, including results whose terms all cancel.",
            "DESIGN.md section 6 C12"),
    "C20": ("TLA+ spec: storage-key codec clauses of WellFormed with unbounded exponents, exact arithmetic on monomials with large exponents, 'error is the only other allowed outcome' above 55000; TLC trace validation",
            "Single exponents over the whole range (sampled in quick, incl. the 54000-58000 band), pairs (a, b) with a+b <= 600 through multiplication, and random exponent tuples up to 10**5 in 1-3 indeterminates through construction, raw view and back, multiplication, squaring, differentiation, evaluation at 0/1/-1, pickling, copy and text files; TLC checks keys decode to the exponents, products have exactly the summed exponents and the right coefficient, and that below 55000 no operation may raise.",
            "DESIGN.md section 6 C20"),
    "C17": ("TLA+ frame condition as a global clause on every event (digests of every live register before/after every call, also when it raises); explicit targets (copyto with masks) specified; TLC trace validation of the whole catalogue",
            "Every call of every driver is bracketed by digests (shape, dtype, names, keys, raw bytes) of every live register; TLC requires all of them unchanged except the declared targets of copyto, whose new value it recomputes. A dedicated driver calls ~50 public callables (incl. ones that raise, unsupported numpy functions, division, comparison, pickling, printing, properties) on operands that were aligned beforehand so that internal aliasing is possible.",
            "DESIGN.md section 6 C17"),
    "C13": ("TLA+ spec: pickle/copy reproduce the representation exactly, savetxt/loadtxt reproduce shape, names and denotation, headerless files load as plain arrays; TLC trace validation",
            "Pickle protocols 0-5, copy.copy, copy.deepcopy, .copy() (also on alignment outputs that retain all-zero terms) must reproduce shape, dtype, names, exponent rows and coefficients; numpoly.savetxt / numpy.savetxt with fmt, delimiter, header, comments choices to file objects and paths followed by numpoly.loadtxt must restore shape (0-d, size-1, multi-d), names and every element (values exactly representable in the format); a file without numpoly header must load as the plain array.",
            "DESIGN.md section 6 C13"),
    "C15": ("TLA+ spec: every postcondition fixes denotation, shape and dtype by expressions in which the option record does not occur (sort options only in order-based actions, display options only in text actions); option calls are events tracked by the option machine; TLC trace validation of the operation catalogue under random settings of all eight boolean options and alternative display signs",
            "Each trace first sets a random full option setting (through set_options or inside an open global_options block) and then runs the body of one of twelve other drivers (ring arithmetic, shape functions, reductions, evaluation, derivatives, alignment, construction, leading terms, round trips, dtypes, large exponents); TLC judges every event with the same option-independent postconditions and any exception is a rejection, so a setting that changes a value, a shape, a dtype or makes an operation fail is reported. Division runs under default retain options in C05.",
            "DESIGN.md section 6 C15"),
    "C16": ("TLA+ spec: the printed text, lexed into signed products of number / name / name^int, is evaluated as ordinary arithmetic and must equal the element; term order must follow the selected display order; sympy round trip; TLC trace validation",
            "str, repr, array_str and array_repr are executed under random display settings (graded/reverse/inverse, '**' or '^', '*' or a middle dot) on int, float, complex and bool polynomial arrays with coefficients +-1, negative leading terms and names up to q12; the harness only lexes the text, TLC evaluates each element's terms and compares with the exact polynomial and checks that the printed monomials are strictly ordered by the display order; to_sympy -> polynomial must reproduce 0-d int/float polynomials.",
            "DESIGN.md section 6 C16"),
    "C14": ("TLA+ state machine of the option record and the global_options stack; TLC exhaustive bounded model with action properties; every edge of the dumped graph replayed on the real library; TLC trace validation of random histories",
            "The option machine is model-checked exhaustively (bounded depth and length, history hidden by a VIEW) for restore-on-every-exit, bad-key-changes-nothing, only-given-keys-change; every edge of the reachable quotient graph is replayed into the real set_options/global_options/get_options (exits by exception included) with get_options() compared to the model after every step; random histories over all twelve real keys are validated by the same specification.",
            "DESIGN.md section 6 C14"),
}
MODEL_NOTES = {
    "C02": "In addition TLC enumerates all ordered pairs of a universe of small polynomials with evaluation points (MC_Algebra), checks that evaluation is a ring homomorphism, staged = one-shot and the swap is an involution on the specification, and every pair is replayed through five binding forms, six carriers, staged evaluation and the q0<->q1 swap.",
    "C03": "In addition TLC enumerates every attribute triple with up to 2 (thorough: 3) rows over exponents 0..1 in two indeterminates under all 36 combinations of explicit and global retain flags (MC_Attr), checks that cleaning is idempotent, denotation-preserving and drops exactly the prescribed rows and names, and every triple is replayed on the three constructors.",
    "C04": "In addition TLC enumerates all ordered pairs of a universe of small polynomial arrays whose name tuples are sorted, unsorted, overlapping, disjoint and ordered differently as numbers and strings (q2/q10), with and without all-zero terms, over broadcasting shapes (MC_Align), checks on the specification's constructive alignment that alignment preserves the polynomial, yields one common layout and is idempotent, and every pair is replayed on the alignment functions (and on re-alignment of their outputs).",
    "C13": "In addition TLC enumerates every operand of a small universe (unsorted names, q2/q10, all-zero terms, unused names, 0-d to 2-d) x every medium (pickle protocols 0-5, copy, deepcopy, .copy(), text through both writers to buffer and path) x the four retain settings in force when loading (MC_Roundtrip), checks that what each medium carries denotes the stored polynomial, and every vector is replayed.",
    "C15": "In addition the programs of the bounded ring model over a universe with all-zero terms (MC_Ring, universe 'config') are replayed under all 16 settings of the four semantic options and eight coefficient dtypes in rotation.",
    "C06": "In addition TLC checks linearity, the product rule, commuting mixed partials and 'free of the variable => 0' on all ordered pairs of a universe of small polynomials (MC_Algebra) and the pairs (and their products) are replayed through all designation kinds under the four retain settings.",
    "C07": "In addition TLC enumerates all ordered pairs of a universe of small polynomials under the four settings (MC_Order), checks trichotomy, antisymmetry, transitivity against every third polynomial, equality only for identical polynomials and numeric order of constants on the specification, and replays every pair on the six operators, maximum/minimum, comparisons with plain numbers and the lead queries (half of the replays store both operands over the name tuple (q1, q0)).  Pairs of monomials in three indeterminates are part of the model and always replayed, and the examples of the user guide's section on comparison operators are ASSUMEs evaluated by TLC: the specification's order is the documented one.",
    "C09": "In addition TLC enumerates the index-expression grammar (integers, slices, newaxis, ellipsis, integer lists incl. several lists separated by slices) and all axis permutations for small shapes (MC_Shape), checks that the specification's gather maps are total, and every expression is replayed; joins are enumerated as (function, number of operands, axis, relation of the operands' names and terms: same / same layout under other names / other terms / plain numbers).",
    "C10": "In addition TLC enumerates every (function, shape, axis choice, keepdims) with axes as None, single, negative and ordered tuples in every order (MC_Reduce), checks fold laws on an array of distinct symbolic elements, and every vector is replayed through all spellings.  A second model (MC_LinAlg) enumerates every zero pattern of 1x1, 2x2 and 3x3 matrices (and stacks), every matmul shape combination incl. stacked and broadcast batches, inner / outer of vectors and diff / ediff1d for every shape, axis, order and prepend / append choice; TLC checks that the specification's determinant is multilinear, alternating, transposition-invariant, zero with a zero row, the diagonal product when triangular and multiplicative on 2x2, that matmul is associative with identity, inner = trace of outer, and that diff telescopes; every vector is replayed.",
    "C11": "In addition the vectors of the reduction model (MC_Reduce: every shape x axis choice as none / single / negative / ordered tuples x keepdims) are replayed on constant polynomials through sum, prod, mean, cumsum, amax / amin / max / min, argmax / argmin, any / all and count_nonzero in the numpoly, numpy and method spellings, against numpy on the raw arrays.",
    "C12": "In addition TLC enumerates all 196 ordered dtype pairs (MC_DType), checks commutativity / idempotence / absorption of the promotion rules and idempotence of casts (it refuted associativity, which numpy's own table does not have either), and every pair is replayed: model-vs-numpy binding events, dtype= construction, astype, +, -, *, and x - x.",
    "C16": "In addition TLC enumerates all ordered pairs of a universe of small polynomials printed as a two-element array under every display order and both retain_names settings (MC_Text), checks that the display order totally orders each element's monomials, and every pair is replayed on str/repr.",
    "C18": "In addition TLC enumerates every key matrix of a small universe and every (start, stop, norm, flags) vector (MC_Sort), checks that the order is a strict total order and basic laws of the index sets, and every vector is replayed on glexsort / glexindex / bindex / monomial.",
    "C20": "In addition TLC enumerates single exponents across the range (MC_Keys; thorough: every exponent 0..57500), checks that the key codec is a bijection and that the guaranteed range avoids unstorable code points, and every exponent (the Unicode white-space code points and UTF-8 length boundaries are part of the quick range) is replayed through construction, the raw view, pickling, a multiplication and text files written by both writers, as the only key and as the last of two keys in two indeterminates; and every product q0**a * q0**b with a + b <= 600 (quick: the sums around the byte-length boundaries of the key code point, thinned) is replayed in both orders, one and two indeterminates, int and float coefficients and the three spellings.",
}
NOT_YET = "check under construction in this session: the TLA+ action exists in the design (DESIGN.md section 6) but is not yet bound to the implementation by a registered check"


def main():
    checks = []
    for pid in ALL:
        if pid not in CLAIMS:
            continue
        tech, text, ref = CLAIMS[pid]
        from harness import catalog
        models = sorted({mm["module"] for mm in catalog.CATALOG.get(pid, {}).get("models", [])})
        if models:
            note = MODEL_NOTES.get(pid, "")
            tech += "; TLC bounded model(s) %s: laws checked on every state, every enumerated vector replayed on the implementation" % ", ".join(models)
            if note and note not in text:
                text += " " + note
        checks.append({
            "property_id": pid,
            "quick_cmd": "bin/check %s --tier quick" % pid,
            "thorough_cmd": "bin/check %s --tier thorough" % pid,
            "evidence_file": "/verif/evidence/%s.json" % pid,
            "replay_cmd_template": "bin/check %s --replay {path}" % pid,
            "engine": "tla-spec+harness",
            "technique": tech,
            "level_claimed": {"category": "model_checking", "text": text, "design_ref": ref},
            "level_note": "trusted: TLC, the projection harness/project.py (moves values, exact re-encoding, no arithmetic), the TLA+ value / DOT parsers, numpy as the reference for numpy's own semantics; exhaustive only inside the stated bounded universes, seeded sampling outside",
        })
    manifest = {
        "version": 1,
        "setup_cmd": "cd /verif && sh bin/setup",
        "hooks": {
            "guard": "NUMPOLY_VERIF",
            "enable": "no in-source hooks: instrumentation is harness-side (digest snapshots around every call, SIGALRM watchdog, division-loop observer wrapping a module global); checks import numpoly from /repo's working tree on every run",
            "baseline_off_cmd": "cd /repo && /venv/bin/python -m pytest -ra -q -p no:cacheprovider --timeout=900 --continue-on-collection-errors",
            "source_commits": [],
            "add_only": True,
        },
        "engines": [{
            "name": "tla-spec+harness", "path": "spec/ harness/ bin/",
            "serves_properties": sorted(CLAIMS),
            "kind_free_text": "explicit TLA+ specification (spec/*.tla) checked by TLC; bounded models replayed on the real library; recorded executions validated by TLC against the same specification",
        }],
        "checks": checks,
        "not_applicable": [{"property_id": p, "reason": NOT_YET} for p in ALL if p not in CLAIMS],
        "notes": "fix: commits in /repo and open findings are listed in known_findings.json; DESIGN.md records which checks catch which seeded changes",
    }
    with open(os.path.join(VERIF, "MANIFEST.json"), "w") as fh:
        json.dump(manifest, fh, indent=1)
    print("MANIFEST.json:", len(checks), "checks,", len(manifest["not_applicable"]), "not applicable")


if __name__ == "__main__":
    main()
