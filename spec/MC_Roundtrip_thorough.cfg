SPECIFICATION Spec
CONSTANTS
  Tier = "thorough"
INVARIANT SamePolynomial
CHECK_DEADLOCK FALSE
