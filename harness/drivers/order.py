"""C07 driver: comparison operators, maximum/minimum under the four sort settings;
pairs and triples of polynomials, incl. many terms of equal total degree."""
from __future__ import annotations

import random

import numpy

from .. import gen
from ..project import build_poly
from ..record import Recorder, reset_options

OPS = ("lt", "le", "gt", "ge", "eq", "ne")


def tied_poly_spec(rng, names, shape=(), nterms=12, degree=None):
    """Many terms of the same total degree (where an unstable sort changes the verdict)."""
    nd = len(names)
    degree = degree or rng.randint(2, 5)
    rows = set()
    tries = 0
    while len(rows) < nterms and tries < 200:
        tries += 1
        cuts = sorted(rng.randint(0, degree) for _ in range(nd - 1))
        row = tuple(b - a for a, b in zip([0] + cuts, cuts + [degree]))
        rows.add(row)
    rows = sorted(rows)
    rng.shuffle(rows)
    size = int(numpy.prod(shape, dtype=int))
    coefs = [[rng.choice([-2, -1, 1, 2, 3]) for _ in range(size)] for _ in rows]
    return {"shape": list(shape), "names": list(names), "rows": [list(r) for r in rows], "coefs": coefs, "dtype": "int64"}


def perturb(rng, spec):
    """A polynomial differing from spec in one coefficient (decided below the leading term)."""
    out = {k: (list(map(list, v)) if k in ("rows", "coefs") else v) for k, v in spec.items()}
    r = rng.randrange(len(out["rows"]))
    k = rng.randrange(len(out["coefs"][r])) if out["coefs"][r] else 0
    if out["coefs"][r]:
        out["coefs"][r][k] += rng.choice([-1, 1])
    return out


def one_trace(rng, tid, prop):
    import numpoly
    reset_options()
    rec = Recorder(tid, prop)
    graded, reverse = rng.random() < 0.5, rng.random() < 0.5
    if rng.random() < 0.8:
        rec.do("set_options", [], keep=False, kw={"sort_graded": graded, "sort_reverse": reverse}, bad=[])
    names = gen.rand_names(rng, 1, 3, pool=(0, 1, 2))
    kind = rng.choice(["int", "int", "float"])
    base = rng.choice([(), (), (2,), (2, 2), (1, 3)])
    regs = []
    style = rng.random()
    for i in range(3):
        shape = base if i == 0 else gen.broadcast_partner(rng, base)
        if style < 0.3 and len(names) >= 2:
            spec = tied_poly_spec(rng, names, shape, nterms=rng.randint(4, 30))
            if i > 0 and rng.random() < 0.6 and tuple(shape) == tuple(regs_specs[0]["shape"]):
                spec = perturb(rng, regs_specs[0])
        else:
            spec = gen.rand_poly_spec(rng, shape=shape, names=names, kind=kind, max_terms=4, max_exp=2)
            if i > 0 and rng.random() < 0.3 and tuple(shape) == tuple(regs_specs[0]["shape"]):
                spec = perturb(rng, regs_specs[0]) if rng.random() < 0.7 else regs_specs[0]
        if i == 0:
            regs_specs = [spec]
        regs.append(gen.maybe_view(rec, rng, rec.new(build_poly(spec)), 0.2))
    if rng.random() < 0.4:
        regs.append(rec.new(gen.rand_numeric(rng, gen.broadcast_partner(rng, base), kind)))
    for _ in range(rng.randint(6, 12)):
        a, b = rng.choice(regs), rng.choice(regs)
        if not (isinstance(rec.obj(a), numpoly.ndpoly) or isinstance(rec.obj(b), numpoly.ndpoly)):
            a = regs[0]
        if rng.random() < 0.8:
            sp = rng.choice(["operator", "numpy", "numpoly"])
            rec.do("compare", [a, b], keep=False, op=rng.choice(OPS), spelling=sp)
        else:
            new = rec.do("extreme", [a, b], op=rng.choice(["maximum", "minimum"]), spelling=rng.choice(["numpy", "numpoly"]))
            if new and len(regs) < 6:
                regs.extend(new)
    reset_options()
    return rec.to_json()


def generate(seed, n, prop="C07", start=0, **kw):
    out = []
    for i in range(start, start + n):
        rng = random.Random("order/%d/%d" % (seed, i))
        out.append(one_trace(rng, "%s-order-s%d-%05d" % (prop, seed, i), prop, **kw))
    return out
