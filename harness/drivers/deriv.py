"""C06 driver: derivative (name / index / indeterminate designations, several
variables), gradient, hessian, under every retain_* / sort_* option setting."""
from __future__ import annotations

import random

from .. import gen
from ..project import build_poly
from ..record import Recorder, reset_options


def one_trace(rng, tid, prop):
    reset_options()
    rec = Recorder(tid, prop)
    kw = {k: rng.random() < 0.5 for k in ("retain_names", "retain_coefficients", "sort_graded", "sort_reverse")}
    if rng.random() < 0.75:
        rec.do("set_options", [], keep=False, kw=kw, bad=[])
    names = gen.rand_names(rng, 1, 3, pool=(0, 1, 2, 10))
    kind = rng.choice(["int", "int", "float"])
    narrow = rng.choice(["bool", "uint8", "int8"]) if kind == "int" and rng.random() < 0.25 else None
    polys = []
    for _ in range(2):
        spec = gen.rand_poly_spec(rng, shape=rng.choice([(), (2,), (2, 2), (1, 2)]), names=names, kind=kind,
                                  max_terms=4, max_exp=3)
        if narrow:
            # narrow coefficient types (seed C06f): exponent x coefficient exceeds the type, so the exact derivative
            # needs the promotion numpy performs; coefficients are non-zero multiples of 100 / booleans
            f = {"bool": lambda c: c != 0, "uint8": lambda c: (abs(c) % 3) * 100,
                 "int8": lambda c: max(-1, min(1, c)) * 100}[narrow]
            spec["coefs"] = [[f(c) for c in row] for row in spec["coefs"]]
            spec["dtype"] = narrow
        polys.append(gen.maybe_view(rec, rng, rec.new(build_poly(spec)), 0.2))
    for _ in range(rng.randint(4, 8)):
        a = rng.choice(polys)
        nm = rec.obj(a).names
        c = rng.random()
        if c < 0.65:
            nv = rng.choice([1, 1, 2, 3])
            desig, vars_ = [], []
            for _ in range(nv):
                j = rng.randrange(len(nm))
                how = rng.choice(["index", "name", "poly", "element"])
                if how == "index":
                    desig.append({"as": "index", "v": j})
                    vars_.append({"kind": "index", "i": j, "id": -1})
                else:
                    desig.append({"as": how, "v": nm[j]})
                    vars_.append({"kind": "name", "i": -1, "id": int(nm[j][1:])})
            new = rec.do("deriv", [a], fn="derivative", designators=desig, vars=vars_)
            if new and len(polys) < 5 and len(rec.obj(new[0]).names) == len(nm):
                polys.append(new[0])
        elif c < 0.85:
            rec.do("deriv", [a], keep=False, fn="gradient", vars=[])
        else:
            rec.do("deriv", [a], keep=False, fn="hessian", vars=[])
    reset_options()
    return rec.to_json()


def generate(seed, n, prop="C06", start=0, **kw):
    out = []
    for i in range(start, start + n):
        rng = random.Random("deriv/%d/%d" % (seed, i))
        out.append(one_trace(rng, "%s-deriv-s%d-%05d" % (prop, seed, i), prop, **kw))
    return out
