SPECIFICATION Spec
CONSTANTS
  MaxTerms = 2
  Tier = "quick"
INVARIANT DerivativeLaws
INVARIANT EvaluationLaws
CHECK_DEADLOCK FALSE
