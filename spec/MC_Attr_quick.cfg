SPECIFICATION Spec
CONSTANTS
  MaxRows = 2
INVARIANT DenPreserved
INVARIANT Idempotent
INVARIANT DropsExactly
CHECK_DEADLOCK FALSE
