"""C09 driver: shape functions, joins, splits, indexing, iteration on arrays of
pairwise distinct polynomials; parameters from the grammars of DESIGN Appendix B.
The expected movement of positions is numpy's own, observed on label arrays."""
from __future__ import annotations

import itertools
import random

import numpy

from .. import gen
from ..actions import gather_map
from ..project import build_poly
from ..record import Recorder, reset_options

SHAPES = [(), (1,), (2,), (3,), (1, 2), (2, 1), (2, 2), (2, 3), (3, 2), (1, 3), (3, 1), (1, 1),
          (2, 1, 2), (1, 2, 2), (2, 2, 1), (1, 1, 3), (2, 3, 1), (2, 2, 2), (1, 3, 2)]
METHODS = {"reshape": "reshape_method", "transpose": "transpose_method", "diagonal": "diagonal_method"}


def distinct_poly_spec(rng, shape, names=None, kind="int", tag=1):
    """Array whose elements are pairwise distinct polynomials."""
    names = names or gen.rand_names(rng, 1, 3)
    size = int(numpy.prod(shape, dtype=int))
    nd = len(names)
    rows = [[0] * nd]
    r1 = [0] * nd
    r1[0] = 1
    rows.append(r1)
    extra = gen.rand_rows(rng, nd, rng.randint(0, 2), 2)
    for r in extra:
        if list(r) not in rows:
            rows.append(list(r))
    pool = gen.coef_pool(kind)
    coefs = []
    for i, _ in enumerate(rows):
        if i == 1:
            coefs.append([(k + 1) * tag for k in range(size)])      # distinguishes elements
        else:
            coefs.append([rng.choice(pool) for _ in range(size)])
    if kind != "int":
        coefs = [[c * (0.5 if kind == "float" else (1 + 0j)) for c in row] for row in coefs]
    return {"shape": list(shape), "names": list(names), "rows": rows, "coefs": coefs, "dtype": gen.dtype_of(kind)}


def rand_index(rng, shape):
    items = []
    nd = len(shape)
    style = rng.random()
    if nd and style < 0.15:
        ax_len = shape[0]
        vals = [rng.randrange(-ax_len, ax_len) for _ in range(rng.randint(1, 3))]
        return [{"t": "list", "v": vals}], rng.random() < 0.5
    if nd and style < 0.25:
        size = int(numpy.prod(shape, dtype=int))
        return [{"t": "mask", "v": [rng.random() < 0.5 for _ in range(size)], "shape": list(shape)}], False
    if nd and style < 0.32:
        return [{"t": "mask", "v": [rng.random() < 0.6 for _ in range(shape[0])], "shape": [shape[0]]}], False
    if nd >= 2 and style < 0.4:
        n = rng.randint(1, 3)
        return [{"t": "list", "v": [rng.randrange(-shape[0], shape[0]) for _ in range(n)]},
                {"t": "list", "v": [rng.randrange(-shape[1], shape[1]) for _ in range(n)]}], True
    used = 0
    ell = False
    while used < nd and rng.random() < 0.8:
        c = rng.random()
        if c < 0.3:
            items.append({"t": "int", "i": rng.randrange(-shape[used], shape[used])})
            used += 1
        elif c < 0.75:
            def bound():
                return [] if rng.random() < 0.4 else [rng.choice([0, 1, -1, 2, 5, -5])]
            st = [] if rng.random() < 0.5 else [rng.choice([1, 2, -1, -2])]
            items.append({"t": "slice", "a": bound(), "b": bound(), "st": st})
            used += 1
        elif c < 0.88:
            items.append({"t": "new"})
        elif not ell:
            items.append({"t": "ellipsis"})
            ell = True
            used = max(used, nd - rng.randint(0, nd - used))
    if not items:
        items = [{"t": "ellipsis"}] if rng.random() < 0.5 else [{"t": "new"}]
    return items, (len(items) != 1 or rng.random() < 0.5)


def candidates(rng, shapes):
    """Yield (fn, params, operand indexes) candidates for the given live operand shapes."""
    i = rng.randrange(len(shapes))
    s = shapes[i]
    nd = len(s)
    size = int(numpy.prod(s, dtype=int))
    fam = rng.choice(["reshape", "transpose", "T", "moveaxis", "expand_dims", "atleast", "repeat", "tile",
                      "join", "split", "diag", "diagonal", "broadcast_arrays", "where", "choose", "full",
                      "full_like", "getitem", "getitem", "getitem", "iter", "ravel"])
    if fam == "reshape":
        targets = [t for t in SHAPES + [(4,), (6,), (8,), (4, 1), (1, 4), (12,), (3, 4)] if int(numpy.prod(t, dtype=int)) == size]
        if not targets:
            return None
        t = list(rng.choice(targets))
        if t and rng.random() < 0.3:
            t[rng.randrange(len(t))] = -1
        shape_param = t
        if len(t) == 1 and rng.random() < 0.3:
            shape_param = t[0]
        if rng.random() < 0.25:
            # ("A" is left out: it follows the memory layout of the operand, which the label arrays do not share)
            return "reshape", {"shape": shape_param, "order": rng.choice(["F", "C"])}, [i]
        return "reshape", {"shape": shape_param}, [i]
    if fam == "transpose":
        if rng.random() < 0.3:
            return "transpose", {"axes": "none"}, [i]
        perm = list(range(nd))
        rng.shuffle(perm)
        if rng.random() < 0.3:
            perm = [a - nd for a in perm]
        return "transpose", {"axes": perm}, [i]
    if fam == "T":
        return "T", {}, [i]
    if fam == "moveaxis" and nd >= 1:
        if nd >= 2 and rng.random() < 0.3:
            src = rng.sample(range(nd), 2)
            dst = rng.sample(range(nd), 2)
            return "moveaxis", {"source": src, "destination": dst}, [i]
        return "moveaxis", {"source": rng.randrange(-nd, nd), "destination": rng.randrange(-nd, nd)}, [i]
    if fam == "expand_dims":
        if rng.random() < 0.25:
            return "expand_dims", {"axis": rng.sample(range(nd + 2), 2)}, [i]
        return "expand_dims", {"axis": rng.randrange(-(nd + 1), nd + 1)}, [i]
    if fam == "atleast":
        fn = rng.choice(["atleast_1d", "atleast_2d", "atleast_3d"])
        ops = [i] if rng.random() < 0.7 else [i, rng.randrange(len(shapes))]
        return fn, {}, ops
    if fam == "repeat":
        ax = rng.choice(["omitted", "none"] + list(range(-nd, nd)))
        if isinstance(ax, int):
            n = s[ax]
        else:
            n = size
        reps = rng.choice([1, 2, [rng.randint(0, 2) for _ in range(n)]])
        return "repeat", {"repeats": reps, "axis": ax}, [i]
    if fam == "tile":
        return "tile", {"reps": rng.choice([2, [1, 2], [2, 1], [2, 1, 1], 1])}, [i]
    if fam == "join":
        fn = rng.choice(["concatenate", "stack", "hstack", "vstack", "dstack"])
        k = rng.randint(1, 3)                 # a sequence holding a single operand is legal too
        ops = [i] + [rng.randrange(len(shapes)) for _ in range(k - 1)]
        p = {}
        if fn == "concatenate":
            p["axis"] = rng.choice(["none"] + list(range(-max(nd, 1), max(nd, 1))))
        if fn == "stack":
            p["axis"] = rng.randrange(-(nd + 1), nd + 1)
        return fn, p, ops
    if fam == "split" and nd >= 1:
        fn = rng.choice(["split", "array_split", "hsplit", "vsplit", "dsplit"])
        ax = rng.randrange(-nd, nd)
        ext = s[ax] if fn in ("split", "array_split") else s[{"hsplit": 1 if nd > 1 else 0, "vsplit": 0, "dsplit": min(2, nd - 1)}[fn]]
        sec = rng.choice([1, 2, 3, [1], [1, 2], [0], [ext], [1, 1]])
        p = {"sections": sec}
        if fn in ("split", "array_split"):
            p["axis"] = ax
        return fn, p, [i]
    if fam == "diag" and nd in (1, 2):
        return "diag", {"k": rng.randint(-2, 2)}, [i]
    if fam == "diagonal" and nd >= 2:
        a1, a2 = rng.sample(range(nd), 2)
        return "diagonal", {"offset": rng.randint(-1, 1), "axis1": a1, "axis2": a2}, [i]
    if fam == "broadcast_arrays":
        return "broadcast_arrays", {}, [i, rng.randrange(len(shapes))] + ([rng.randrange(len(shapes))] if rng.random() < 0.3 else [])
    if fam == "where":
        j = rng.randrange(len(shapes))
        try:
            t = numpy.broadcast_shapes(s, shapes[j])
        except ValueError:
            return None
        cs = rng.choice([t, gen.broadcast_partner(rng, t)])
        n = int(numpy.prod(cs, dtype=int))
        return "where", {"cond": [rng.random() < 0.5 for _ in range(n)], "cshape": list(cs)}, [i, j]
    if fam == "choose":
        j = rng.randrange(len(shapes))
        try:
            t = numpy.broadcast_shapes(s, shapes[j])
        except ValueError:
            return None
        ishape = rng.choice([t, gen.broadcast_partner(rng, t)])
        n = int(numpy.prod(ishape, dtype=int))
        mode = rng.choice(["raise", "wrap", "clip"])
        idx = [rng.randint(0, 1) for _ in range(n)]
        if mode != "raise" and n and rng.random() < 0.5:
            idx[rng.randrange(n)] = rng.choice([2, 3, -1])
        return "choose", {"idx": idx, "ishape": list(ishape), "mode": mode}, [i, j]
    if fam == "full" and nd == 0:
        return "full", {"shape": list(rng.choice(SHAPES))}, [i]
    if fam == "full_like":
        cands = [j for j, t in enumerate(shapes) if t == ()]
        if not cands:
            return None
        return "full_like", {}, [i, rng.choice(cands)]
    if fam == "getitem":
        items, as_tuple = rand_index(rng, s)
        return "getitem", {"index": items, "tuple": as_tuple}, [i]
    if fam == "iter" and nd >= 1:
        return "iter", {}, [i]
    if fam == "ravel":
        return rng.choice(["ravel", "flatten", "flat"]), {}, [i]
    return None


def model_of(fn, p, shapes):
    """Parameters for the TLA+ gather maps of Shape.tla (core subset), or 'none'."""
    s = shapes[0]
    nd = len(s)
    if fn == "reshape":
        if p.get("order", "C") != "C":
            return None                      # the TLA+ gather map of reshape is the C-order one
        t = p["shape"] if isinstance(p["shape"], list) else [p["shape"]]
        size = int(numpy.prod(s, dtype=int))
        t = list(t)
        if -1 in t:
            rest = int(numpy.prod([x for x in t if x != -1], dtype=int))
            if rest == 0:
                return None
            t[t.index(-1)] = size // rest
        return {"fn": "reshape", "shape": t}
    if fn in ("transpose", "T"):
        axes = p.get("axes", "none")
        perm = list(range(nd))[::-1] if (fn == "T" or axes == "none") else [a % nd for a in axes]
        return {"fn": "transpose", "perm": [a + 1 for a in perm]}
    if fn == "concatenate" and p.get("axis") != "none" and all(len(x) == nd for x in shapes) and nd >= 1:
        return {"fn": "concat", "axis": p["axis"] % nd}
    if fn == "getitem" and all(it["t"] in ("int", "slice", "new", "ellipsis") for it in p["index"]):
        items = []
        consumed = sum(1 for it in p["index"] if it["t"] in ("int", "slice"))
        for it in p["index"]:
            if it["t"] == "ellipsis":
                items.extend({"t": "slice", "a": [], "b": [], "st": 1} for _ in range(nd - consumed))
            elif it["t"] == "slice":
                items.append({"t": "slice", "a": it["a"], "b": it["b"], "st": it["st"][0] if it["st"] else 1})
            else:
                items.append(it)
        return {"fn": "index", "items": items}
    return None


def one_trace(rng, tid, prop, kind=None):
    import numpoly
    reset_options()
    rec = Recorder(tid, prop)
    kind = kind or rng.choice(["int", "int", "float"])
    regs, shapes = [], []
    name_sets = [gen.rand_names(rng, 1, 2), gen.rand_names(rng, 1, 3)]
    for j in range(rng.randint(2, 3)):
        shape = rng.choice(SHAPES)
        spec = distinct_poly_spec(rng, shape, names=name_sets[j % 2], kind=kind, tag=j + 1)
        regs.append(rec.new(build_poly(spec), note="distinct"))
        shapes.append(tuple(shape))
        if j == 0 and rng.random() < 0.5:
            # a twin: the same shape, exponent table and dtype, but OTHER indeterminates (and other coefficients);
            # the storage layouts coincide although the polynomials have nothing in common
            twin = dict(spec, names=[n + 1 for n in spec["names"]], coefs=[[c * 2 for c in row] for row in spec["coefs"]])
            regs.append(rec.new(build_poly(twin), note="twin"))
            shapes.append(tuple(shape))
    # a 0-d operand is always around (full / full_like / where)
    regs.append(rec.new(build_poly(distinct_poly_spec(rng, (), names=name_sets[0], kind=kind, tag=7)), note="scalar"))
    shapes.append(())
    steps = rng.randint(4, 9)
    done = 0
    tries = 0
    while done < steps and tries < 60:
        tries += 1
        cand = candidates(rng, shapes)
        if cand is None:
            continue
        fn, p, ops = cand
        op_shapes = [shapes[o] for o in ops]
        spelling = rng.choice(["numpoly", "numpy", "method"])
        if fn == "full":
            spelling = "numpoly"      # numpy.full takes the polynomial as fill value and never dispatches
        fname = fn
        if spelling == "method":
            if fn in METHODS:
                fname = METHODS[fn]
            spelling = "numpoly"
        params = {"fn": fname, "p": p, "spelling": spelling}
        try:
            g = gather_map(params, op_shapes)
        except Exception:
            continue            # numpy itself rejects these parameters: outside the quantifier
        model = model_of(fn, p, op_shapes)
        new = rec.do("move", [regs[o] for o in ops], _multi=True, fn=fname, p=p, spelling=spelling,
                     gather=g, model=[model] if model else [])
        done += 1
        for r in new[:2]:
            obj = rec.obj(r)
            if isinstance(obj, numpoly.ndpoly) and len(obj.shape) <= 3 and 0 < obj.size <= 12 and len(regs) < 9:
                regs.append(r)
                shapes.append(tuple(obj.shape))
    return rec.to_json()


def generate(seed, n, prop="C09", start=0, **kw):
    out = []
    for i in range(start, start + n):
        rng = random.Random("shape/%d/%d" % (seed, i))
        out.append(one_trace(rng, "%s-shape-s%d-%05d" % (prop, seed, i), prop, **kw))
    return out
