"""Running TLC: trace validation batches and bounded models."""
from __future__ import annotations

import json
import os
import re
import shutil
import subprocess
import tempfile
import time
from concurrent.futures import ThreadPoolExecutor

VERIF = os.path.dirname(os.path.dirname(os.path.abspath(__file__)))
SPEC = os.path.join(VERIF, "spec")
JAR = "/opt/veriftools/tla/tla2tools.jar:/opt/veriftools/tla/CommunityModules-deps.jar"


class MachineryError(Exception):
    """TLC crashed / output not understood: exit status 2, never a VIOLATION."""


def scratch_dir(prefix="numpoly-verif-") -> str:
    base = os.environ.get("VERIF_SCRATCH") or tempfile.gettempdir()
    return tempfile.mkdtemp(prefix=prefix, dir=base)


def _java(args, env=None, cwd=None, timeout=3600, heap="3g", light=False):
    # light: many short single-worker JVMs side by side (trace batches): serial GC and
    # C1-only JIT cut the start-up CPU from ~9 s to ~2 s per process (measured)
    flags = ["-XX:+UseSerialGC", "-XX:TieredStopAtLevel=1", "-XX:-UsePerfData"] if light else ["-XX:+UseParallelGC"]
    cmd = ["java"] + flags + ["-Xss64m", "-Xmx" + heap, "-cp", JAR, "tlc2.TLC"] + args
    e = dict(os.environ)
    e.pop("JAVA_TOOL_OPTIONS", None)
    if env:
        e.update(env)
    t0 = time.time()
    try:
        p = subprocess.run(cmd, cwd=cwd, env=e, capture_output=True, text=True, timeout=timeout)
    except subprocess.TimeoutExpired as exc:
        raise MachineryError("TLC timed out after %ss: %s" % (timeout, " ".join(args))) from exc
    return p.returncode, p.stdout + p.stderr, time.time() - t0


_VERDICT = re.compile(r'<<"VERDICT", "(.*)">>\s*$', re.M)


def validate_batch(batch: dict, workdir: str, tag: str, spec="Trace", timeout=3600) -> dict:
    """Validate one batch of traces with TLC; returns the verdict record
    {failures: [...], events: n, traces: n}."""
    path = os.path.join(workdir, "%s.json" % tag)
    with open(path, "w") as fh:
        json.dump(batch, fh)
    meta = os.path.join(workdir, "meta-" + tag)
    rc, out, wall = _java(
        ["-workers", "1", "-metadir", meta, "-noGenerateSpecTE", "-config",
         os.path.join(SPEC, spec + ".cfg"), os.path.join(SPEC, spec + ".tla")],
        env={"TRACE_FILE": path}, cwd=SPEC, timeout=timeout, light=True)
    shutil.rmtree(meta, ignore_errors=True)
    m = _VERDICT.search(out)
    if not m:
        # find the position TLC had reached, to make the failure actionable
        where = re.findall(r"/\\ t = (\d+)\s*\n/\\ l = (\d+)|/\\ l = (\d+)\s*\n.*?/\\ t = (\d+)", out)
        with open(os.path.join(workdir, "%s.tlc.log" % tag), "w") as fh:
            fh.write(out)
        raise MachineryError("TLC gave no verdict for batch %s (rc=%s, at %s); log: %s\n%s" % (
            tag, rc, where[-1:] if where else "?", os.path.join(workdir, tag + ".tlc.log"),
            _tail(out)))
    verdict = json.loads(json.loads('"' + m.group(1) + '"'))
    verdict["wall_s"] = wall
    if not os.environ.get("VERIF_KEEP_SCRATCH"):
        os.remove(path)                 # the thorough tier would otherwise fill the scratch directory
    return verdict


def _tail(out: str, n=40) -> str:
    lines = [x for x in out.splitlines() if x.strip()]
    return "\n".join(lines[-n:])


def validate_traces(traces: list, workdir: str, tag: str, header=None, nproc=16,
                    per_batch=None, spec="Trace", timeout=3600) -> dict:
    """Split traces into batches, validate them in parallel TLC processes."""
    if not traces:
        return {"failures": [], "events": 0, "traces": 0, "wall_s": 0.0, "batches": 0}
    nev = sum(len(t["events"]) for t in traces)
    if per_batch is None:
        per_batch = max(1, (len(traces) + nproc - 1) // nproc)
    batches = [traces[i:i + per_batch] for i in range(0, len(traces), per_batch)]
    t0 = time.time()

    def run(i):
        b = dict(header or {})
        b["traces"] = batches[i]
        return validate_batch(b, workdir, "%s-%03d" % (tag, i), spec=spec, timeout=timeout)

    with ThreadPoolExecutor(max_workers=nproc) as ex:
        verdicts = list(ex.map(run, range(len(batches))))
    failures = [f for v in verdicts for f in v["failures"]]
    events = sum(v["events"] for v in verdicts)
    skipped = sum(v.get("skipped", 0) for v in verdicts)
    return {"failures": failures, "events": events, "skipped": skipped, "traces": sum(v["traces"] for v in verdicts),
            "expected_events": nev, "wall_s": time.time() - t0, "batches": len(batches)}


# ------------------------------------------------------------- bounded models
_STATS = re.compile(r"(\d+) states generated, (\d+) distinct states found, (\d+) states left on queue")
_DEPTH = re.compile(r"The depth of the complete state graph search is (\d+)")


def run_model(module: str, cfg: str = None, workdir: str = None, workers=16, dump: str = None,
              dump_kind="states", extra=(), timeout=3600, heap="8g", env=None) -> dict:
    """Run TLC on a bounded model.  Returns stats, raw output, violated flag."""
    cfg = cfg or module
    meta = os.path.join(workdir, "meta-" + cfg)
    # no -coverage: it multiplies the run time of invariant-heavy models by 4; which actions / vector kinds were
    # exercised is measured from the dumped graph instead (harness/replay.py extractors)
    args = ["-workers", str(workers), "-metadir", meta, "-noGenerateSpecTE",
            "-config", os.path.join(SPEC, cfg + ".cfg")]
    if dump:
        args += ["-dump"] + (["dot,actionlabels"] if dump_kind == "dot" else []) + [dump]
    args += list(extra) + [os.path.join(SPEC, module + ".tla")]
    rc, out, wall = _java(args, cwd=SPEC, timeout=timeout, heap=heap, env=env)
    shutil.rmtree(meta, ignore_errors=True)
    m = _STATS.findall(out) or re.findall(r"(\d[\d,]*) states generated, (\d[\d,]*) distinct states found, (\d[\d,]*) states left on queue", out)
    m = [tuple(x.replace(",", "") for x in t) for t in m]
    d = _DEPTH.search(out)
    res = {"rc": rc, "wall_s": wall, "out": out,
           "generated": int(m[-1][0]) if m else 0, "distinct": int(m[-1][1]) if m else 0,
           "queue": int(m[-1][2]) if m else -1, "depth": int(d.group(1)) if d else 0,
           "violated": ("is violated" in out or "was violated" in out),
           "completed": "Model checking completed. No error has been found." in out,
           "coverage": parse_coverage(out)}
    if not res["completed"] and not res["violated"]:
        log = os.path.join(workdir, cfg + ".tlc.log")
        with open(log, "w") as fh:
            fh.write(out)
        raise MachineryError("TLC did not complete model %s (rc=%s); log %s\n%s" % (cfg, rc, log, _tail(out)))
    return res


_COV = re.compile(r"^<(\w+) line (\d+), col \d+ to line \d+, col \d+ of module (\w+)>: (\d+):(\d+)", re.M)


def parse_coverage(out: str) -> dict:
    """Per-action (distinct, generated) counts from -coverage output (last report wins)."""
    cov = {}
    for name, _line, mod, a, b in _COV.findall(out):
        cov["%s.%s" % (mod, name)] = {"distinct": int(a), "generated": int(b)}
    return cov
