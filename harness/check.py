"""bin/check <ID> [--tier quick|thorough] [--replay file]

Per property: (1) TLC on the bounded model(s) with the property's invariants,
(2) replay of the dumped programs on the real numpoly, (3) seeded drivers,
(4) TLC validation of every recorded event (spec/Trace.tla), (5) known-finding
witnesses, (6) evidence.  Exit 0: property held on everything explored;
exit 1 + `VIOLATION property=<id> replay=<path>`; exit 2: machinery failure.
"""
from __future__ import annotations

import argparse
import hashlib
import json
import os
import shutil
import sys
import time
import traceback

VERIF = os.path.dirname(os.path.dirname(os.path.abspath(__file__)))
sys.path.insert(0, VERIF)
os.environ.setdefault("PYTHONHASHSEED", "0")

from harness import catalog, findings, pool, tlc  # noqa: E402
from harness.show import brief  # noqa: E402

ROUND_TRACES = 20000    # weight executed and validated per round: a model vector counts 1, a driver trace 3
ROUND_TASKS = 400       # generation / replay tasks executed and validated per round (bounds the memory of the thorough tier)
GLOBAL_OWNER = {"wellformed": "C03", "poison": "C12", "frame": "C17", "options": "C14"}
STD_KEYS = ("act", "prop", "args", "out", "res", "digests", "targets", "after", "opts", "ms", "kept", "note")


def owner_of(failure: dict) -> str:
    return GLOBAL_OWNER.get(failure["clause"], failure["prop"])


def event_key(trace, ev, regs):
    params = {k: v for k, v in ev.items() if k not in STD_KEYS}
    ops = [regs[a - 1].get("digest", "") for a in ev["args"] if 0 < a <= len(regs)]
    return hashlib.sha1(json.dumps([ev["act"], params, ops], sort_keys=True, default=str).encode()).hexdigest()


def nontrivial(ev, regs) -> bool:
    if ev["act"] == "new":
        return False
    args = [regs[a - 1] for a in ev["args"] if 0 < a <= len(regs)]
    polys = [a for a in args if a["kind"] == "poly"]
    if not polys:
        return True                      # option / index / utility actions: every call counts
    return any(any(e > 0 for row in a["rows"] for e in row) and
               any(c["r"]["s"] != 0 or c["i"]["s"] != 0 for row in a["coefs"] for c in row) for a in polys)


class Census:
    """Measured counts for the evidence file, accumulated round by round (traces are not kept)."""

    def __init__(self, pid):
        self.pid, self.seen, self.per_action, self.nontriv, self.total_calls = pid, set(), {}, 0, 0

    def add(self, traces):
        pid = self.pid
        for tr in traces:
            regs = []
            for ev in tr["events"]:
                if ev["act"] != "new":
                    self.total_calls += 1
                    self.per_action[ev["act"]] = self.per_action.get(ev["act"], 0) + 1
                    if ev["prop"] == pid or pid in GLOBAL_OWNER.values():
                        k = event_key(tr, ev, regs)
                        if k not in self.seen and nontrivial(ev, regs):
                            self.seen.add(k)
                            self.nontriv += 1
                if ev["out"] == "ret" and ev.get("kept", True):
                    regs.extend(ev["res"])

    def result(self):
        return {"calls": self.total_calls, "distinct_nontrivial": self.nontriv, "per_action": self.per_action}


def sample_events(traces, pid, n=4):
    out = []
    for tr in traces:
        for i, ev in enumerate(tr["events"], 1):
            if ev["act"] != "new" and ev["prop"] == pid:
                params = {k: v for k, v in ev.items() if k not in STD_KEYS}
                regs = findings.register_map(tr, i)
                out.append({"trace": tr["id"], "line": i, "act": ev["act"], "params": params,
                            "operands": [brief(regs[a - 1]) for a in ev["args"] if 0 < a <= len(regs)],
                            "result": [brief(r) for r in ev["res"]]})
                break
        if len(out) >= n:
            break
    return out


def write_replay(pid, trace, failure):
    d = os.environ.get("VERIF_REPLAY_DIR") or os.path.join(VERIF, "replays")
    os.makedirs(d, exist_ok=True)
    path = os.path.join(d, "%s-%s-l%d-%s.json" % (pid, trace["id"], failure["line"], failure["clause"]))
    with open(path, "w") as fh:
        json.dump({"property": pid, "failure": failure, "traces": [trace]}, fh)
    return path


def reexecute_and_validate(traces, wd, tag):
    """Re-run recorded traces from their own JSON in fresh processes, validate again."""
    tasks = pool.replay_tasks("reexecute", traces, "RX", chunk=max(1, len(traces) // 16 + 1))
    again = pool.run_tasks(tasks)
    v = tlc.validate_traces(again, wd, tag)
    return again, v


def run_witnesses(pid, kfs, wd):
    """Execute the witnesses of open findings of this property."""
    lines = []
    opened = [k for k in kfs if k["property"] == pid and k.get("status") == "open"]
    if not opened:
        return lines, []
    traces = []
    for k in opened:
        w = dict(k["witness"])
        w["id"] = "witness-" + k["id"]
        w["prop"] = pid
        w["events"] = [dict(ev, prop=pid) for ev in w["events"]]
        traces.append(w)
    again, v = reexecute_and_validate(traces, wd, "witness")
    status = []
    for k, tr in zip(opened, again):
        hits = [f for f in v["failures"] if f["trace"] == tr["id"] and owner_of(f) == pid
                and f["clause"] in k["match"]["clauses"]]
        if hits:
            lines.append("KNOWN-FINDING: property=%s %s [%s]" % (pid, k["what"], k["id"]))
            status.append({"id": k["id"], "still_fails": True})
        else:
            lines.append("NOTE: known finding %s no longer reproduces (entry looks stale)" % k["id"])
            status.append({"id": k["id"], "still_fails": False})
    return lines, status


def check(pid: str, tier: str, seed: int, replay_path: str = None) -> int:
    t0 = time.time()
    cfg = catalog.CATALOG[pid]
    wd = tlc.scratch_dir()
    kfs = findings.load()
    out_lines = []
    try:
        model_stats = []
        tasks = []
        traces = []
        stage = {}
        t_stage = time.time()
        if replay_path:
            with open(replay_path) as fh:
                recorded = json.load(fh)["traces"]
            traces, _ = reexecute_and_validate(recorded, wd, "replay-pre")
        else:
            # (1) bounded models, (2) programs for replay
            for m in cfg.get("models", []):
                ms, mtasks = catalog.run_model_stage(pid, m, tier, seed, wd)
                model_stats.append(ms)
                tasks.extend(mtasks)
            # (3) drivers
            for name, sizes, kw in catalog.drivers_for(pid, tier):
                tasks.extend(pool.driver_tasks(name, seed, sizes, kw.pop("_prop", pid), kw))
            stage["models_s"] = round(time.time() - t_stage, 1)
        # (4) execution and validation in rounds of bounded size: only rejected traces are kept in memory
        cen = Census(pid)
        samples, first_prop = [], None
        verdict = {"failures": [], "events": 0, "traces": 0, "expected_events": 0, "skipped": 0, "batches": 0}
        by_id = {}
        stage["execution_s"] = stage["validation_s"] = 0.0
        # a round holds at most ROUND_TASKS tasks and about ROUND_TRACES traces (tasks carry up to 200 traces each)
        groups, cur, load = [], [], 0
        for tk in tasks:
            # traces of the drivers carry about three times the events of a replayed model vector
            n = tk[4] * 3 if tk[0] == "driver" else len(tk[2])
            if cur and (len(cur) >= ROUND_TASKS or load + n > ROUND_TRACES):
                groups.append(cur)
                cur, load = [], 0
            cur.append(tk)
            load += n
        if cur:
            groups.append(cur)
        rounds = [traces] if replay_path else groups
        for rn, given in enumerate(rounds):
            t_stage = time.time()
            chunk = given if replay_path else pool.run_tasks(given)
            stage["execution_s"] = round(stage["execution_s"] + time.time() - t_stage, 1)
            if not chunk:
                continue
            t_stage = time.time()
            v = tlc.validate_traces(chunk, wd, "main%03d" % rn)
            stage["validation_s"] = round(stage["validation_s"] + time.time() - t_stage, 1)
            for k in ("events", "traces", "expected_events", "skipped", "batches"):
                verdict[k] += v.get(k, 0)
            verdict["failures"].extend(v["failures"])
            bad = {f["trace"] for f in v["failures"]}
            by_id.update({t["id"]: t for t in chunk if t["id"] in bad})
            cen.add(chunk)
            if len(samples) < 4:
                samples.extend(sample_events(chunk, pid, 4 - len(samples)))
            if first_prop is None and chunk:
                first_prop = chunk[0]["prop"]
                fallback_samples = sample_events(chunk, first_prop)
        if verdict["events"] + verdict.get("skipped", 0) != verdict["expected_events"]:
            raise tlc.MachineryError("TLC judged %d events, %d were recorded" % (
                verdict["events"], verdict["expected_events"]))
        mine, others, known = [], [], []
        for f in verdict["failures"]:
            own = owner_of(f)
            if own != pid:
                others.append(f)
                continue
            kf = findings.classify(f, by_id[f["trace"]], pid, kfs)
            (known if kf else mine).append(dict(f, finding=kf))
        # confirm violations by re-execution in fresh processes
        violations = []
        if mine:
            bad_traces = [by_id[t] for t in sorted({f["trace"] for f in mine})]
            again, v2 = reexecute_and_validate(bad_traces, wd, "confirm")
            confirmed = {(f["trace"], f["line"], f["clause"]) for f in v2["failures"]}
            for f in mine:
                if (f["trace"], f["line"], f["clause"]) in confirmed:
                    violations.append(f)
                else:
                    out_lines.append("NOTE: rejection %s line %d clause %s did not reproduce on re-execution" % (
                        f["trace"], f["line"], f["clause"]))
        # (5) witnesses
        wlines, wstatus = run_witnesses(pid, kfs, wd)
        out_lines.extend(wlines)
        # findings of other properties met while running the catalogue under this property (C15)
        by_kf = {k["id"]: k for k in kfs}
        for kid in sorted({f["finding"] for f in known}):
            if by_kf[kid]["property"] != pid:
                out_lines.append("KNOWN-FINDING: property=%s %s [%s, listed under %s]" % (
                    pid, by_kf[kid]["what"], kid, by_kf[kid]["property"]))
        # report
        groups = {}
        for f in violations:
            ev = by_id[f["trace"]]["events"][f["line"] - 1]
            groups.setdefault((f["act"], str(ev.get("fn", ev.get("op", ""))), f["clause"]), []).append(f)
        for n, (key, fs) in enumerate(sorted(groups.items())):
            path = write_replay(pid, by_id[fs[0]["trace"]], fs[0])
            if n < 25:
                out_lines.append("VIOLATION property=%s replay=%s" % (pid, path))
                out_lines.append("  (%d rejection(s): action %s %s, clause %s)" % (len(fs), key[0], key[1], key[2]))
        summary = {}
        for f in others:
            k = (owner_of(f), f["act"], f["clause"])
            summary[k] = summary.get(k, 0) + 1
        for (own, act, clause), n in sorted(summary.items()):
            out_lines.append("NOTE: %d rejection(s) owned by %s (action %s, clause %s) seen on the way" % (n, own, act, clause))
        # (6) evidence
        cen = cen.result()
        states = sum(m["distinct"] for m in model_stats) + verdict["events"] + verdict.get("batches", 0)
        transitions = sum(m["generated"] for m in model_stats) + verdict["events"]
        evidence = {
            "property_id": pid, "tier": tier, "seed": seed, "level": "model_checking",
            "coverage": {
                "states": max(states, 1), "transitions": max(transitions, 1),
                "traces_validated_against_impl": verdict["traces"],
                "events_validated_against_impl": verdict["events"],
                "evaluations": cen["calls"], "distinct_nontrivial": cen["distinct_nontrivial"],
                "rule": "evaluations = public calls executed on the real library and judged by TLC; "
                        "distinct_nontrivial = distinct (action, parameters, operand digests) whose operands include "
                        "a non-constant polynomial with a non-zero coefficient (option / utility actions: every distinct call)",
                "samples": samples or (fallback_samples if first_prop is not None else []),
                "stage_seconds": stage, "bounded_models": model_stats, "per_action_events": cen["per_action"],
                "rejections_owned": len(violations), "known_finding_rejections": len(known),
                "known_findings": wstatus,
                "other_property_rejections": [
                    {"owner": o, "action": a, "clause": c, "count": n} for (o, a, c), n in sorted(summary.items())],
                "exhaustive": False,
                "checker_cmd": "tlc -workers 1 -config spec/Trace.cfg spec/Trace.tla (TRACE_FILE=batch.json)",
            },
            "assumptions": [
                "TLC evaluates the TLA+ specification correctly",
                "harness/project.py observes real objects faithfully (no arithmetic, exact number re-encoding)",
                "numpy is the reference for numpy's own semantics (broadcasting, casts)",
                "compiled Cython helpers as found in /repo's working tree (no Cython in the sandbox)",
            ],
            "wall_s": round(time.time() - t0, 2), "violations": len(violations),
        }
        evdir = os.environ.get("VERIF_EVIDENCE_DIR") or os.path.join(VERIF, "evidence")
        os.makedirs(evdir, exist_ok=True)
        with open(os.path.join(evdir, pid + ".json"), "w") as fh:
            json.dump(evidence, fh, indent=1, default=str)
        crashes = list(pool.CRASHES)
        if crashes:
            out_lines.append("NOTE: %d trace(s) were lost to exceptions inside the drivers (first: %s: %s)" % (
                len(crashes), crashes[0]["where"], crashes[0]["crashed"].strip().splitlines()[-1][:200]))
        for line in out_lines:
            print(line)
        if crashes and not violations:
            # nothing was judged wrong, but part of the exploration did not happen: not a pass
            raise tlc.MachineryError("driver exceptions and no violation to report:\n" + crashes[0]["crashed"])
        print("%s %s: %d traces, %d events judged, %d bounded-model states, %d violation(s), %d known-finding rejection(s), %.1fs" % (
            pid, tier, verdict["traces"], verdict["events"], sum(m["distinct"] for m in model_stats),
            len(violations), len(known), time.time() - t0))
        return 1 if violations else 0
    finally:
        if os.environ.get("VERIF_KEEP_SCRATCH"):
            print("scratch kept:", wd)
        else:
            shutil.rmtree(wd, ignore_errors=True)


def main(argv=None):
    ap = argparse.ArgumentParser()
    ap.add_argument("pid")
    ap.add_argument("--tier", default=os.environ.get("VERIF_TIER", "quick"), choices=["quick", "thorough"])
    ap.add_argument("--replay")
    a = ap.parse_args(argv)
    seed = int(os.environ.get("VERIF_SEED", "0") or 0)
    try:
        return check(a.pid, a.tier, seed, a.replay)
    except tlc.MachineryError as exc:
        print("MACHINERY-FAILURE: %s" % exc)
        return 2
    except Exception:  # noqa: BLE001
        traceback.print_exc()
        print("MACHINERY-FAILURE: unexpected exception in the harness")
        return 2


if __name__ == "__main__":
    sys.exit(main())
