------------------------------ MODULE MC_Shape ------------------------------
(***************************************************************************)
(* Bounded model for C09: the index-expression grammar (integers, slices,  *)
(* newaxis, ellipsis, integer lists - also several lists separated by      *)
(* slices), all axis permutations and all reshapes of small shapes.  For   *)
(* the basic expressions TLC checks that the specification's gather map    *)
(* is total and of the right size; every vector is replayed on the real    *)
(* library, the expected movement of positions being numpy's own.  Joins   *)
(* (concatenate / stack / hstack / vstack / dstack) are enumerated over    *)
(* the number of operands, the axis and the relation of the operands'      *)
(* names and terms to each other.                                          *)
(***************************************************************************)
EXTENDS Shape, TLC

CONSTANTS Tier

VARIABLES vec
Shapes == IF Tier = "quick" THEN {<<2, 2>>, <<2, 2, 2>>} ELSE {<<2>>, <<2, 2>>, <<2, 3>>, <<2, 2, 2>>, <<2, 1, 2>>}
None == <<>>
Items ==
  {[t |-> "int", i |-> 0], [t |-> "int", i |-> -1],
   [t |-> "slice", a |-> None, b |-> None, st |-> None], [t |-> "slice", a |-> <<1>>, b |-> None, st |-> None],
   [t |-> "slice", a |-> None, b |-> <<-1>>, st |-> None], [t |-> "slice", a |-> None, b |-> None, st |-> <<-1>>],
   [t |-> "list", v |-> <<0, 1>>], [t |-> "list", v |-> <<1, 1>>], [t |-> "list", v |-> <<1, 0>>],
   [t |-> "new"], [t |-> "ellipsis"]}
Consumes(it) == it.t \in {"int", "slice", "list"}
IndexExprs(s) ==
  UNION {{e \in [1..k -> Items] :
             /\ Cardinality({i \in 1..k : Consumes(e[i])}) <= Len(s)
             /\ Cardinality({i \in 1..k : e[i].t = "ellipsis"}) <= 1
             /\ Cardinality({i \in 1..k : e[i].t = "new"}) <= 1} : k \in 1..(Len(s) + 1)}
IsBasic(e) == \A i \in 1..Len(e) : e[i].t # "list"
Perms(n) == {p \in [1..n -> 1..n] : \A i, j \in 1..n : i # j => p[i] # p[j]}

InjSeqs(k, n) == {q \in [1..k -> 0..(n - 1)] : \A i, j \in 1..k : i # j => q[i] # q[j]}
JoinFns == {"concatenate", "stack", "hstack", "vstack", "dstack"}
JoinAxes(f, nd) == IF f = "concatenate" THEN (0 - nd)..(nd - 1) ELSE IF f = "stack" THEN (0 - nd - 1)..nd ELSE {0}

Init == vec = [kind |-> "none"]
Next == \/ vec.kind = "none" /\ \E s \in Shapes : vec' = [kind |-> "shape", shape |-> s]
        \/ vec.kind = "shape" /\ \E e \in IndexExprs(vec.shape) : vec' = [kind |-> "index", shape |-> vec.shape, items |-> e]
        \/ vec.kind = "shape" /\ \E p \in Perms(Len(vec.shape)) : vec' = [kind |-> "transpose", shape |-> vec.shape, perm |-> p]
        \* moveaxis with sequences: every injective source / destination pair of every length
        \/ vec.kind = "shape" /\ \E k \in 1..Len(vec.shape) :
              \E src \in InjSeqs(k, Len(vec.shape)), dst \in InjSeqs(k, Len(vec.shape)) :
                 vec' = [kind |-> "moveaxis", shape |-> vec.shape, source |-> src, destination |-> dst]
        \* joins: function x number of operands x axis x how the later operands relate to the first
        \* ("same": same names and terms; "twin": same exponent table and dtype, other names; "terms": same names,
        \* other terms; "number": a plain numeric array)
        \/ vec.kind = "shape" /\ \E f \in JoinFns, n \in 1..3, fam \in {"same", "twin", "terms", "number"} :
              \E ax \in JoinAxes(f, Len(vec.shape)) :
                 vec' = [kind |-> "join", fn |-> f, shape |-> vec.shape, count |-> n, family |-> fam, axis |-> ax]
Spec == Init /\ [][Next]_vec

\* expand the ellipsis into full slices so that Shape.tla's basic indexing applies
FullSlice == [t |-> "slice", a |-> None, b |-> None, st |-> 1]
NormItem(it) == IF it.t = "slice" THEN [t |-> "slice", a |-> it.a, b |-> it.b, st |-> IF it.st = None THEN 1 ELSE it.st[1]] ELSE it
Expand(e, n) ==
  LET used == Cardinality({i \in 1..Len(e) : Consumes(e[i])})
      pos == {i \in 1..Len(e) : e[i].t = "ellipsis"}
  IN IF pos = {} THEN [i \in 1..Len(e) |-> NormItem(e[i])]
     ELSE LET p == CHOOSE i \in pos : TRUE
          IN [i \in 1..(p - 1) |-> NormItem(e[i])] \o [i \in 1..(n - used) |-> FullSlice]
             \o [i \in 1..(Len(e) - p) |-> NormItem(e[p + i])]
BasicIndexTotal ==
  (vec.kind = "index" /\ IsBasic(vec.items)) =>
     LET g == GIndex(vec.shape, Expand(vec.items, Len(vec.shape)))
     IN GatherOK(g, <<vec.shape>>)
\* concatenating n copies of one shape along an axis: every source position of every operand is used exactly once
ConcatIsPartition ==
  (vec.kind = "join" /\ vec.fn = "concatenate") =>
     LET ss == [i \in 1..vec.count |-> vec.shape]
         g == GConcat(ss, NormAxis(vec.axis, Len(vec.shape)))
     IN /\ GatherOK(g, ss)
        /\ {g.src[k] : k \in 1..Len(g.src)} = (1..vec.count) \X (1..Size(vec.shape))
        /\ Len(g.src) = vec.count * Size(vec.shape)
TransposeIsPermutation ==
  vec.kind = "transpose" =>
     LET g == GTranspose(vec.shape, vec.perm)
     IN /\ GatherOK(g, <<vec.shape>>)
        /\ {g.src[k][2] : k \in 1..Len(g.src)} = 1..Size(vec.shape)
=============================================================================
