------------------------------- MODULE Trace -------------------------------
(***************************************************************************)
(* Trace validation: a batch of traces recorded from the real numpoly      *)
(* (harness/record.py) is replayed against the specification.  Every event *)
(* is judged by the same operators the bounded models use, with the logged *)
(* result substituted for the specification's nondeterministic choice.     *)
(*                                                                         *)
(* Verdicts are total: a failing clause is recorded by name together with  *)
(* trace and event number, and validation goes on.  POSTCONDITION prints   *)
(* all verdicts as one JSON value.  Run with -workers 1.                   *)
(***************************************************************************)
EXTENDS Numpoly, Json, IOUtils, TLCExt

Batch == JsonDeserialize(IOEnv.TRACE_FILE)
TraceList == Batch.traces

VARIABLES t, l, reg, opts, ctx
tvars == <<t, l, reg, opts, ctx>>

TInit == /\ t = 1 /\ l = 1 /\ reg = <<>> /\ ctx = <<>>
         /\ opts = DefaultOptions
         /\ TLCSet(1, <<>>)          \* failures
         /\ TLCSet(2, 0)             \* events judged
         /\ TLCSet(3, 0)             \* events skipped because an earlier result of the trace was malformed

Fail(tr, ln, ev, clause, detail) ==
  TLCSet(1, Append(TLCGet(1), [trace |-> tr.id, line |-> ln, act |-> ev.act, prop |-> ev.prop,
                               clause |-> clause, detail |-> detail]))

TStep ==
  /\ t <= Len(TraceList)
  /\ LET tr == TraceList[t]
         ev == tr.events[l]
         v == Judge(ev, reg, opts, ctx)
         last == l >= Len(tr.events)
     IN /\ TLCSet(2, TLCGet(2) + 1)
        /\ IF v.abort /\ ~last THEN TLCSet(3, TLCGet(3) + (Len(tr.events) - l)) ELSE TRUE
        /\ IF v.wf = "ok" THEN TRUE ELSE Fail(tr, l, ev, "wellformed", v.wf)
        /\ IF v.poison = "ok" THEN TRUE ELSE Fail(tr, l, ev, "poison", v.poison)
        /\ IF v.own = "ok" THEN TRUE ELSE Fail(tr, l, ev, v.own, "")
        /\ IF v.frame = "ok" THEN TRUE ELSE Fail(tr, l, ev, "frame", v.frame)
        /\ IF v.options = "ok" THEN TRUE ELSE Fail(tr, l, ev, "options", v.options)
        /\ IF v.abort \/ last
           THEN /\ t' = t + 1 /\ l' = 1 /\ reg' = <<>> /\ ctx' = <<>> /\ opts' = DefaultOptions
           ELSE /\ t' = t /\ l' = l + 1
                /\ reg' = NextReg(ev, reg)
                /\ opts' = NextOpts(ev, opts, ctx)
                /\ ctx' = NextCtx(ev, opts, ctx)

TSpec == TInit /\ [][TStep]_tvars

Report ==
  PrintT(<<"VERDICT", ToJson([failures |-> TLCGet(1), events |-> TLCGet(2), skipped |-> TLCGet(3),
                              traces |-> Len(TraceList)])>>)
=============================================================================
