------------------------------ MODULE MC_Ring ------------------------------
(***************************************************************************)
(* Bounded model for C01: SSA programs of ring operations over a small     *)
(* universe of polynomial arrays.  TLC enumerates every program, checks    *)
(* the commutative-ring laws on the specification's own arithmetic (so a   *)
(* wrong oracle does not survive), and the dumped leaf states are replayed *)
(* on the real library, one implementation test per transition.            *)
(***************************************************************************)
EXTENDS PolyArray, TLC

CONSTANTS MaxSeeds, MaxOps, Universe      \* Universe: "quick" | "thorough"

VARIABLES prog, val
vars == <<prog, val>>

\* ------------------------------------------------------------- seed universe
\* coefficient vectors per term (0 included so that zero terms and cancellation occur)
CoefVecs(n) ==
  IF Universe = "config" THEN (IF n = 1 THEN {<<0>>, <<2>>} ELSE {[k \in 1..n |-> 0], [k \in 1..n |-> IF k = 1 THEN 1 ELSE -1]})
  ELSE IF n = 1 THEN (IF Universe \in {"quick", "laws"} THEN {<<-1>>, <<2>>} ELSE {<<-2>>, <<0>>, <<1>>})
  ELSE IF n = 2 THEN (IF Universe \in {"quick", "laws"} THEN {<<1, -1>>, <<0, 2>>}
                      ELSE {<<1, -1>>, <<0, 2>>, <<-1, 0>>})
  ELSE {[k \in 1..n |-> 1], [k \in 1..n |-> IF k = 1 THEN -1 ELSE 0]}
\* (names, rows) layouts: one or two indeterminates, up to two terms
AllLayouts ==
  { [names |-> <<0>>, rows |-> <<<<0>>>>], [names |-> <<0>>, rows |-> <<<<1>>>>],
    [names |-> <<0>>, rows |-> <<<<0>>, <<1>>>>], [names |-> <<0>>, rows |-> <<<<2>>, <<1>>>>],
    [names |-> <<1>>, rows |-> <<<<1>>>>], [names |-> <<1>>, rows |-> <<<<0>>, <<2>>>>],
    [names |-> <<0, 1>>, rows |-> <<<<1, 1>>>>], [names |-> <<0, 1>>, rows |-> <<<<1, 0>>, <<0, 1>>>>],
    [names |-> <<0, 2>>, rows |-> <<<<0, 0>>, <<1, 2>>>>] }
\* the "laws" universe is smaller: it is explored with three seeds for associativity / distributivity
\* the "config" universe (C15: every program under every option setting and several coefficient dtypes)
\* has all-zero terms, also ones that are the only user of a name
Layouts == IF Universe = "laws"
           THEN {lay \in AllLayouts : lay.rows \in {<<<<0>>>>, <<<<1>>>>, <<<<0>>, <<1>>>>, <<<<1, 1>>>>}}
           ELSE IF Universe = "config"
           THEN {lay \in AllLayouts : lay.rows \in {<<<<0>>>>, <<<<0>>, <<1>>>>, <<<<1, 0>>, <<0, 1>>>>, <<<<0, 0>>, <<1, 2>>>>}
                                      \/ lay.names = <<1>>}
           ELSE AllLayouts
SeedShapes == IF Universe \in {"quick", "laws", "config"} THEN {<<>>, <<2>>} ELSE {<<>>, <<2>>, <<2, 1>>}
Seeds ==
  UNION { { [kind |-> "poly", shape |-> s, names |-> lay.names, rows |-> lay.rows, coefs |-> c] :
              c \in [1..Len(lay.rows) -> CoefVecs(Size(s))] } :
          lay \in Layouts, s \in SeedShapes }
SeedObs(s) == [s EXCEPT !.coefs = [r \in 1..Len(s.coefs) |-> [k \in 1..Len(s.coefs[r]) |-> NInt(s.coefs[r][k])]]]
SeedDen(s) == PolyDen(SeedObs(s))

Ops == {"add", "sub", "mul"}
NSeeds == Cardinality({i \in 1..Len(prog) : prog[i].op = "seed"})
NOps == Len(prog) - NSeeds

Init == prog = <<>> /\ val = <<>>
AddSeed == /\ NOps = 0 /\ NSeeds < MaxSeeds
           /\ \E s \in Seeds :
                /\ prog' = Append(prog, [op |-> "seed", v |-> s])
                /\ val' = Append(val, SeedDen(s))
Apply == /\ NSeeds >= 1 /\ NOps < MaxOps
         /\ \E op \in Ops, i, j \in 1..Len(val) :
              /\ (NSeeds > 1 /\ NOps = 0) => i # j                    \* first step combines the two seeds
              /\ BroadcastOK2(val[i].shape, val[j].shape)
              /\ (NOps > 0 => (i = Len(val) \/ j = Len(val)))       \* use the latest result: real compositions
              /\ prog' = Append(prog, [op |-> op, a |-> i, b |-> j])
              /\ val' = Append(val, DArith(op, val[i], val[j]))
Next == AddSeed \/ Apply
Spec == Init /\ [][Next]_vars

\* ------------------------------------------------------------------ ring laws
BOK(x, y) == BroadcastOK2(x.shape, y.shape)
Commutative == \A i, j \in 1..Len(val) : (i < j /\ BOK(val[i], val[j])) =>
                 /\ DAdd(val[i], val[j]) = DAdd(val[j], val[i])
                 /\ DMul(val[i], val[j]) = DMul(val[j], val[i])
AllDistinct(i, j, k) == i # j /\ j # k /\ i # k
Associative == \A i, j, k \in 1..Len(val) :
                 (AllDistinct(i, j, k) /\ BOK(val[i], val[j]) /\ BOK(val[j], val[k]) /\ BOK(val[i], val[k])) =>
                 /\ DAdd(DAdd(val[i], val[j]), val[k]) = DAdd(val[i], DAdd(val[j], val[k]))
                 /\ DMul(DMul(val[i], val[j]), val[k]) = DMul(val[i], DMul(val[j], val[k]))
Distributive == \A i, j, k \in 1..Len(val) :
                 (i # j /\ i # k /\ j <= k /\ BOK(val[i], val[j]) /\ BOK(val[j], val[k]) /\ BOK(val[i], val[k])) =>
                 DMul(val[i], DAdd(val[j], val[k])) = DAdd(DMul(val[i], val[j]), DMul(val[i], val[k]))
Identities == \A i \in 1..Len(val) :
                 /\ DSub(val[i], val[i]) = DZeros(val[i].shape)
                 /\ DNeg(DNeg(val[i])) = val[i]
                 /\ DAdd(val[i], DZeros(<<>>)) = val[i]
                 /\ DMul(val[i], DScalar(EOne)) = val[i]
                 /\ DSub(val[i], DNeg(val[i])) = DAdd(val[i], val[i])
PowerLaws == \A i \in 1..Len(val) :
                 /\ DPow(val[i], DScalar(EConst(NInt(2)))) = DMul(val[i], val[i])
                 /\ DPow(val[i], DScalar(EConst(NInt(3)))) = DMul(val[i], DMul(val[i], val[i]))
                 /\ DPow(val[i], DScalar(EZero)).el = [k \in 1..Len(val[i].el) |-> EOne]
ShapeLaw == \A i \in 1..Len(prog) : prog[i].op # "seed" =>
                 val[i].shape = BShape2(val[prog[i].a].shape, val[prog[i].b].shape)
=============================================================================
