"""C15 driver: the operation catalogue under random settings of the eight
boolean options (and alternative display signs).  Each trace starts with the
option calls (recorded, so the option machine of the specification tracks
them), then runs the body of one of the other drivers; every event is owned by
C15: no setting may change value, shape or dtype, or make an operation fail."""
from __future__ import annotations

import importlib
import random

from .. import record

BODIES = ["ring", "ring", "shape", "reduce", "call", "deriv", "align", "construct", "lead", "roundtrip", "dtype", "keys", "text"]
BOOLS = ["retain_names", "retain_coefficients", "sort_graded", "sort_reverse", "display_graded", "display_reverse",
         "display_inverse", "force_number_suffix"]


def setting(rng):
    kw = {k: rng.random() < 0.5 for k in BOOLS}
    if rng.random() < 0.3:
        kw["display_exponent"] = rng.choice(["**", "^"])
    if rng.random() < 0.3:
        kw["display_multiply"] = rng.choice(["*", "·"])
    return kw


def one_trace(rng, tid, prop):
    body = rng.choice(BODIES)
    kw = setting(rng)
    style = rng.random()

    def prelude(rec):
        if style < 0.6:
            rec.do("set_options", [], keep=False, kw=kw, bad=[], prop="C14")
        else:
            half = dict(list(kw.items())[: len(kw) // 2])
            rest = dict(list(kw.items())[len(kw) // 2:])
            rec.do("enter", [], keep=False, kw=half, bad=[], prop="C14")
            rec.do("set_options", [], keep=False, kw=rest, bad=[], prop="C14")
    record.PRELUDE = prelude
    try:
        mod = importlib.import_module("harness.drivers." + body)
        tr = mod.one_trace(rng, tid, prop)
    finally:
        record.PRELUDE = None
        record.reset_options()
    for ev in tr["events"]:
        if ev["act"] not in ("set_options", "enter", "exit", "exit_exc", "get_mutate", "get_defaults"):
            ev["prop"] = prop
    tr["body"] = body
    tr["setting"] = kw
    return tr


def generate(seed, n, prop="C15", start=0, **kw):
    out = []
    for i in range(start, start + n):
        rng = random.Random("optsweep/%d/%d" % (seed, i))
        out.append(one_trace(rng, "%s-optsweep-s%d-%05d" % (prop, seed, i), prop, **kw))
    return out
