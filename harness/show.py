"""Pretty-print a recorded trace (debugging aid)."""
import json, sys

def regs_of(trace):
    regs = []
    for i, e in enumerate(trace["events"]):
        if e["out"] == "ret" and e.get("kept", True):
            for r in e["res"]:
                regs.append((i, r))
    return regs

def brief(r):
    if r["kind"] == "poly":
        return "poly%s %s names=%s rows=%s" % (r["shape"], r["dtype"], r["names"], r["rows"])
    if r["kind"] == "array":
        return "array%s %s [%s]" % (r["shape"], r["dtype"], r["carrier"])
    if r["kind"] == "raise":
        return "raise %s: %s" % (r["exc"], r.get("msg", "")[:80])
    return r["kind"] + " " + str(r.get("text", ""))[:60]

def show(trace, upto=None):
    regs = regs_of(trace)
    n = 0
    for i, e in enumerate(trace["events"], 1):
        extra = {k: v for k, v in e.items() if k not in ("act", "prop", "args", "out", "res", "digests", "targets", "opts", "ms", "kept", "note")}
        print("%3d %-10s args=%s %s -> %s" % (i, e["act"], e["args"], json.dumps(extra)[:200], " | ".join(brief(r) for r in e["res"])))
        if upto and i >= upto:
            break

if __name__ == "__main__":
    data = json.load(open(sys.argv[1]))
    traces = data["traces"] if isinstance(data, dict) else data
    for t in traces:
        if len(sys.argv) < 3 or t["id"].endswith(sys.argv[2]):
            print("==", t["id"])
            show(t, int(sys.argv[3]) if len(sys.argv) > 3 else None)
