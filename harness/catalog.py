"""Which drivers and bounded models decide which property, and their budgets."""
from __future__ import annotations

import os

from . import pool, replay, tlc

# per property: drivers = [(driver module, {"quick": n traces, "thorough": n}, kwargs)]
#               models  = [{module, cfg: {tier: cfg name}, replay: function in harness.replay, leaf: predicate name,
#                           limit: {tier: max programs replayed}}]
CATALOG = {
    "C01": {
        "drivers": [("ring", {"quick": 500, "thorough": 20000}, {})],
        "models": [
            # three seeds, no operation: associativity and distributivity of the specification's arithmetic
            {"module": "MC_Ring", "cfg": {"quick": "MC_Ring_laws", "thorough": "MC_Ring_laws"}},
            # two seeds and one operation: the programs that are replayed
            {"module": "MC_Ring", "cfg": {"quick": "MC_Ring_quick", "thorough": "MC_Ring_thorough"},
             "extract": "ring_programs", "replay": "run_ring_program",
             "limit": {"quick": 5000, "thorough": 150000}}],
    },
    "C02": {
        "drivers": [("call", {"quick": 400, "thorough": 15000}, {})],
        "models": [{"module": "MC_Algebra", "cfg": {"quick": "MC_Algebra_quick", "thorough": "MC_Algebra_thorough"},
                    "extract": "algebra_vectors", "replay": "run_algebra_vector", "chunk": 40,
                    "limit": {"quick": 3000, "thorough": 250000}}],
    },
    "C03": {
        "drivers": [("construct", {"quick": 400, "thorough": 20000}, {})],
        "models": [{"module": "MC_Attr", "cfg": {"quick": "MC_Attr_quick", "thorough": "MC_Attr_thorough"},
                    "extract": "attr_vectors", "replay": "run_attr_vector", "chunk": 60,
                    "limit": {"quick": 3000, "thorough": 100000}}],
    },
    "C04": {
        "drivers": [("align", {"quick": 400, "thorough": 20000}, {})],
        "models": [{"module": "MC_Align", "cfg": {"quick": "MC_Align_quick", "thorough": "MC_Align_thorough"},
                    "extract": "align_vectors", "replay": "run_align_vector", "chunk": 60,
                    "limit": {"quick": 4200, "thorough": 150000}}],
    },
    "C05": {
        "drivers": [("divide", {"quick": 100, "thorough": 5000}, {})],
        "models": [
            # the candidate rule as implemented: TLC is expected to find the non-termination lasso (KF-C05-pingpong)
            {"module": "Divide", "cfg": {"quick": "MC_Divide_impl", "thorough": "MC_Divide_impl"},
             "violation_expected": "Temporal property Terminates was violated"},
            # the leading-term rule: identity invariant and termination hold; its initial pairs are replayed
            {"module": "Divide", "cfg": {"quick": "MC_Divide_lead", "thorough": "MC_Divide_lead"},
             "extract": "divide_pairs", "replay": "run_divide_pair",
             "limit": {"quick": 500, "thorough": 6000}},
        ],
    },
    "C06": {
        "drivers": [("deriv", {"quick": 500, "thorough": 20000}, {})],
        "models": [{"module": "MC_Algebra", "cfg": {"quick": "MC_Algebra_quick", "thorough": "MC_Algebra_thorough"},
                    "extract": "algebra_vectors", "replay": "run_algebra_vector", "chunk": 40,
                    "limit": {"quick": 3000, "thorough": 250000}}],
    },
    "C07": {
        "drivers": [("order", {"quick": 500, "thorough": 20000}, {})],
        "models": [{"module": "MC_Order", "cfg": {"quick": "MC_Order_quick", "thorough": "MC_Order_thorough"},
                    "extract": "order_vectors", "replay": "run_order_vector", "chunk": 40,
                    "limit": {"quick": 3000, "thorough": 100000}}],
    },
    "C08": {
        # the whole list of unregistered overridable functions / ufuncs / ufunc methods is probed in every run
        "drivers": [("dispatch", {"quick": 200, "thorough": 200}, {"total": 200}),
                    ("dispatch", {"quick": 100, "thorough": 10000}, {}),
                    # every registered function through its numpy spelling and its numpoly implementation (6 per trace)
                    ("dispatch", {"quick": 60, "thorough": 3000}, {"registry": True})],
    },
    "C09": {
        "drivers": [("shape", {"quick": 800, "thorough": 30000}, {})],
        "models": [{"module": "MC_Shape", "cfg": {"quick": "MC_Shape_quick", "thorough": "MC_Shape_thorough"},
                    "extract": "shape_vectors", "replay": "run_shape_vector", "chunk": 60,
                    "limit": {"quick": 12000, "thorough": 400000}}],
    },
    "C10": {
        "drivers": [("reduce", {"quick": 500, "thorough": 20000}, {})],
        "models": [{"module": "MC_Reduce", "cfg": {"quick": "MC_Reduce_quick", "thorough": "MC_Reduce_thorough"},
                    "extract": "reduce_vectors", "replay": "run_reduce_vector", "chunk": 40,
                    "limit": {"quick": 5000, "thorough": 100000}},
                   {"module": "MC_LinAlg", "cfg": {"quick": "MC_LinAlg_quick", "thorough": "MC_LinAlg_thorough"},
                    "extract": "linalg_vectors", "replay": "run_linalg_vector", "chunk": 40,
                    "limit": {"quick": 3000, "thorough": 50000}}],
    },
    "C18": {
        "drivers": [("index", {"quick": 500, "thorough": 20000}, {})],
        "models": [{"module": "MC_Sort", "cfg": {"quick": "MC_Sort_quick", "thorough": "MC_Sort_thorough"},
                    "extract": "sort_vectors", "replay": "run_sort_vector", "chunk": 40,
                    "limit": {"quick": 8000, "thorough": 400000}}],
    },
    "C19": {
        "drivers": [("lead", {"quick": 500, "thorough": 20000}, {})],
    },
    "C11": {
        "drivers": [("const", {"quick": 400, "thorough": 20000}, {})],
        # the enumerated (shape, axis choice, keepdims) vectors of the reduction model, on constant polynomials
        "models": [{"module": "MC_Reduce", "cfg": {"quick": "MC_Reduce_quick", "thorough": "MC_Reduce_thorough"},
                    "extract": "reduce_vectors", "replay": "run_const_vector", "chunk": 40,
                    "limit": {"quick": 3000, "thorough": 60000}}],
    },
    "C12": {
        "drivers": [("dtype", {"quick": 500, "thorough": 20000}, {})],
        "models": [{"module": "MC_DType", "cfg": {"quick": "MC_DType", "thorough": "MC_DType"},
                    "extract": "dtype_vectors", "replay": "run_dtype_vector", "chunk": 13,
                    "limit": {"quick": 1000, "thorough": 1000}}],
    },
    "C15": {
        "drivers": [("optsweep", {"quick": 800, "thorough": 30000}, {})],
        # the programs of the bounded ring model (universe with all-zero terms) under every setting of the four
        # semantic options and several coefficient dtypes
        "models": [{"module": "MC_Ring", "cfg": {"quick": "MC_Ring_config_quick", "thorough": "MC_Ring_config_thorough"},
                    "extract": "ring_programs", "replay": "run_ring_program", "kw": {"configs": True},
                    "limit": {"quick": 6000, "thorough": 200000}}],
    },
    "C16": {
        "drivers": [("text", {"quick": 400, "thorough": 15000}, {})],
        "models": [{"module": "MC_Text", "cfg": {"quick": "MC_Text_quick", "thorough": "MC_Text_thorough"},
                    "extract": "text_vectors", "replay": "run_text_vector", "chunk": 60,
                    "limit": {"quick": 6000, "thorough": 100000}}],
    },
    "C20": {
        "drivers": [("keys", {"quick": 400, "thorough": 20000}, {})],
        "models": [{"module": "MC_Keys", "cfg": {"quick": "MC_Keys_quick", "thorough": "MC_Keys_thorough"},
                    "extract": "key_vectors", "replay": "run_key_vector", "chunk": 60,
                    "limit": {"quick": 3000, "thorough": 250000}}],
    },
    "C17": {
        "drivers": [("frame", {"quick": 400, "thorough": 15000}, {})],
    },
    "C13": {
        "drivers": [("roundtrip", {"quick": 300, "thorough": 15000}, {})],
        "models": [{"module": "MC_Roundtrip", "cfg": {"quick": "MC_Roundtrip_quick", "thorough": "MC_Roundtrip_thorough"},
                    "extract": "roundtrip_vectors", "replay": "run_roundtrip_vector", "chunk": 80,
                    "limit": {"quick": 4500, "thorough": 30000}}],
    },
    "C14": {
        "drivers": [("options", {"quick": 400, "thorough": 20000}, {})],
        "models": [{"module": "MC_Options", "cfg": {"quick": "MC_Options_quick", "thorough": "MC_Options_thorough"},
                    "dump": "dot", "extract": "option_walks_items", "replay": "run_option_walk",
                    "limit": {"quick": 100000, "thorough": 1000000}}],
    },
}

# API that no listed property names: specified, run in the catalogue of the global-clause owners, reported as notes
CATALOG["GROW"] = {"drivers": [("grow", {"quick": 300, "thorough": 10000}, {})]}

# properties whose clause is evaluated on every event of every trace run the whole catalogue
GLOBAL_OWNERS = ("C03", "C12", "C14", "C17")
CATALOGUE_SHARE = {"quick": 0.25, "thorough": 0.1}


def drivers_for(pid: str, tier: str):
    out = []
    for name, sizes, kw in CATALOG[pid].get("drivers", []):
        out.append((name, sizes[tier], dict(kw)))
    if pid in GLOBAL_OWNERS:
        for other, cfg in sorted(CATALOG.items()):
            if other == pid:
                continue
            for name, sizes, kw in cfg.get("drivers", []):
                n = max(20, int(sizes[tier] * CATALOGUE_SHARE[tier]))
                k = dict(kw)
                k["_prop"] = other
                out.append((name, n, k))
    return out


def run_model_stage(pid: str, m: dict, tier: str, seed: int, wd: str):
    """TLC on one bounded model; returns (stats for the evidence, replay tasks)."""
    cfg = m["cfg"][tier]
    dump = os.path.join(wd, cfg + ".dump") if m.get("replay") else None
    res = tlc.run_model(m["module"], cfg, wd, dump=dump, dump_kind=m.get("dump", "states"),
                        timeout=m.get("timeout", 3000))
    if res["violated"]:
        log = os.path.join(wd, cfg + ".tlc.log")
        with open(log, "w") as fh:
            fh.write(res["out"])
        expected = m.get("violation_expected")
        if not expected or expected not in res["out"]:
            raise tlc.MachineryError(
                "an invariant of the specification itself failed in bounded model %s: the oracle is wrong, "
                "not the implementation.\n%s" % (cfg, tlc._tail(res["out"], 60)))
    if m.get("violation_expected") and not res["violated"]:
        raise tlc.MachineryError("bounded model %s no longer shows the expected design-level violation (%s)" % (
            cfg, m["violation_expected"]))
    stats = {"model": m["module"], "config": cfg, "distinct": res["distinct"], "generated": res["generated"],
             "expected_violation_found": bool(m.get("violation_expected")),
             "depth": res["depth"], "wall_s": round(res["wall_s"], 1), "completed": res["completed"],
             "actions": {k: v for k, v in res["coverage"].items() if k.startswith(m["module"] + ".")}}
    tasks = []
    if dump:
        path = dump if os.path.exists(dump) else dump + (".dot" if m.get("dump") == "dot" else ".dump")
        items, extra = getattr(replay, m["extract"])(path)
        stats.update({k: v for k, v in extra.items() if k != "always"})
        limit = m["limit"][tier]
        stats["programs"] = len(items)
        always = extra.pop("always", [])          # vectors the extractor wants replayed in every run (small families)
        if len(items) > limit:
            # deterministic thinning: every k-th program, offset by the seed
            k = (len(items) + limit - 1) // limit
            items = items[seed % k::k]
        items = always + items
        stats["programs_replayed"] = len(items)
        if not items:
            raise tlc.MachineryError("bounded model %s produced no test vectors: the model is vacuous" % cfg)
        tasks = pool.replay_tasks(m["replay"], items, pid, kw=m.get("kw"), chunk=m.get("chunk", 200))
        os.remove(path)
    return stats, tasks
