SPECIFICATION Spec
CONSTANTS
  MaxE = 6
  Rule = "impl"
INVARIANT Identity
INVARIANT RemainderReduced
PROPERTY Terminates
CONSTRAINT Bound
CHECK_DEADLOCK FALSE
