"""Seeded generators over U-rand (DESIGN section 2): polynomial arrays, numeric
operands in several carriers, shapes that broadcast."""
from __future__ import annotations

import random

import numpy

NAME_POOL = (0, 1, 2, 3, 10, 12)
SHAPES = ((), (1,), (2,), (3,), (1, 2), (2, 1), (2, 2), (2, 3), (1, 1), (3, 1),
          (2, 1, 2), (1, 2, 2), (2, 2, 1), (1, 1, 3))
INT_COEFS = (-3, -2, -1, -1, 0, 0, 1, 1, 2, 3, 5)
FLOAT_COEFS = (-2.5, -1.0, -0.5, 0.0, 0.25, 0.5, 1.0, 1.5, 2.0, 3.0)
COMPLEX_COEFS = (1j, -1j, 1 + 1j, 2 - 1j, 0.5j, 1.0 + 0j, -2.0 + 0j, 0j)


def coef_pool(kind: str):
    return {"int": INT_COEFS, "float": FLOAT_COEFS, "complex": COMPLEX_COEFS, "bool": (True, False, True)}[kind]


def dtype_of(kind: str) -> str:
    return {"int": "int64", "float": "float64", "complex": "complex128", "bool": "bool"}[kind]


def rand_shape(rng: random.Random, maxdim=3):
    return rng.choice([s for s in SHAPES if len(s) <= maxdim])


def broadcast_partner(rng: random.Random, shape):
    """A shape that broadcasts with `shape` (differing ndim / size-1 axes)."""
    choice = rng.random()
    if choice < 0.3:
        return tuple(shape)
    if choice < 0.45:
        return ()
    out = [d if rng.random() < 0.6 else 1 for d in shape]
    cut = rng.randint(0, len(out))
    out = out[cut:]
    if cut == 0 and rng.random() < 0.2 and len(out) < 3:
        out = [rng.choice((1, 2))] + out
    return tuple(out)


def rand_names(rng: random.Random, lo=1, hi=4, pool=NAME_POOL):
    n = rng.randint(lo, min(hi, len(pool)))
    return tuple(sorted(rng.sample(pool, n)))


def rand_rows(rng: random.Random, ndim: int, nterms: int, max_exp=3):
    rows = set()
    tries = 0
    while len(rows) < nterms and tries < 50:
        tries += 1
        style = rng.random()
        if style < 0.25:
            row = tuple(0 for _ in range(ndim))
        elif style < 0.6:
            row = [0] * ndim
            row[rng.randrange(ndim)] = rng.randint(1, max_exp)
            row = tuple(row)
        else:
            row = tuple(rng.randint(0, max_exp) for _ in range(ndim))
        rows.add(row)
    rows = list(rows)
    rng.shuffle(rows)
    return rows


def rand_poly_spec(rng: random.Random, shape=None, names=None, kind="int", max_terms=6,
                   max_exp=3, allow_zero=True, min_terms=0):
    """Abstract description of a polynomial array (consumed by project.build_poly)."""
    shape = rand_shape(rng) if shape is None else tuple(shape)
    names = rand_names(rng) if names is None else tuple(names)
    if len(names) >= 2 and rng.random() < 0.15:
        # indeterminates stored out of index order (symbols("q1 q2 q0"), from_attributes(names=...)) are legal
        names = list(names)
        rng.shuffle(names)
        names = tuple(names)
    nterms = rng.randint(min_terms, max_terms)
    rows = rand_rows(rng, len(names), max(nterms, 1), max_exp)
    size = int(numpy.prod(shape, dtype=int))
    pool = coef_pool(kind)
    coefs = []
    for _ in rows:
        if nterms == 0:
            coefs.append([pool[0] * 0] * size)
        elif allow_zero and rng.random() < 0.12:
            coefs.append([pool[0] * 0] * size)
        else:
            coefs.append([rng.choice(pool) for _ in range(size)])
    return {"shape": list(shape), "names": list(names), "rows": [list(r) for r in rows],
            "coefs": coefs, "dtype": dtype_of(kind)}


def rand_numeric(rng: random.Random, shape=(), kind="int"):
    """A numeric operand in a random carrier: python scalar, numpy scalar, list, ndarray."""
    pool = coef_pool(kind)
    size = int(numpy.prod(shape, dtype=int))
    vals = [rng.choice(pool) for _ in range(size)]
    dtype = dtype_of(kind)
    if rng.random() < 0.15:
        # narrower numpy types of the same kind (values are small: exactly representable)
        dtype = {"int": rng.choice(["int32", "int16"]), "float": "float32", "complex": "complex64", "bool": "bool"}[kind]
    arr = numpy.array(vals, dtype=dtype).reshape(shape)
    if shape == ():
        c = rng.random()
        if c < 0.4:
            return arr.item()
        if c < 0.7:
            return arr[()]
        return arr
    c = rng.random()
    if c < 0.35:
        return arr.tolist()
    if c < 0.45 and len(shape) == 1:
        return tuple(arr.tolist())
    return arr


def shape_pairs():
    """All ordered pairs of SHAPES that broadcast with each other (deterministic order)."""
    out = []
    for a in SHAPES:
        for b in SHAPES:
            try:
                numpy.broadcast_shapes(a, b)
            except ValueError:
                continue
            out.append((a, b))
    return out


def maybe_view(rec, rng, reg, prob=0.2):
    """With some probability replace a >= 2-d polynomial register by a view whose axes are permuted in memory
    (p.T / transpose): a legitimate public object that is not C-contiguous."""
    import numpoly
    from .actions import gather_map
    obj = rec.obj(reg)
    if not isinstance(obj, numpoly.ndpoly) or obj.ndim < 2 or rng.random() >= prob:
        return reg
    nd = obj.ndim
    perm = list(range(nd))
    while perm == list(range(nd)):
        rng.shuffle(perm)
    inv = [perm.index(i) for i in range(nd)]
    # transpose there and back through two different permutations so that shape is preserved but memory order is not
    params = {"fn": "transpose_method", "p": {"axes": perm}, "spelling": "numpoly"}
    v = rec.do("move", [reg], gather=gather_map(params, [obj.shape]), model=[], prop="C09", **params)
    if not v:
        return reg
    return v[0]
