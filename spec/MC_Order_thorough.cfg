SPECIFICATION Spec
CONSTANTS
  MaxTerms = 2
  Tier = "thorough"
INVARIANT Trichotomy
INVARIANT Antisymmetric
INVARIANT EqualOnlyIfIdentical
INVARIANT Transitive
INVARIANT ConstantsAsNumbers
INVARIANT LeadIsMax
CHECK_DEADLOCK FALSE
