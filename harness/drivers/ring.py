"""C01 driver: expression trees of ring operations over U-rand."""
from __future__ import annotations

import operator
import random

import numpy

from .. import gen
from ..project import build_poly
from ..record import Recorder, reset_options

def one_trace(rng: random.Random, tid: str, prop: str, kind=None, depth=4) -> dict:
    import numpoly
    reset_options()
    rec = Recorder(tid, prop)
    kind = kind or rng.choice(["int", "int", "float", "complex"])
    base_shape = gen.rand_shape(rng)
    name_sets = [gen.rand_names(rng, 1, 3) for _ in range(2)]
    if rng.random() < 0.3:
        name_sets[1] = name_sets[0]
    # inputs: 2-3 polynomials, 1-2 numeric operands
    polys = []
    for i in range(rng.randint(2, 3)):
        shape = base_shape if i == 0 else gen.broadcast_partner(rng, base_shape)
        spec = gen.rand_poly_spec(rng, shape=shape, names=rng.choice(name_sets), kind=kind,
                                  max_terms=rng.choice([1, 2, 3, 6]), max_exp=rng.choice([1, 2, 3]))
        polys.append(gen.maybe_view(rec, rng, rec.new(build_poly(spec), note="poly"), 0.15))
    nums = []
    for _ in range(rng.randint(1, 2)):
        shape = gen.broadcast_partner(rng, base_shape)
        nkind = kind if rng.random() < 0.7 else rng.choice(["int", "int", "bool"])
        nums.append(rec.new(gen.rand_numeric(rng, shape, nkind), note="numeric"))
    level = {r: 0 for r in polys + nums}
    is_poly = set(polys)
    steps = rng.randint(3, 9)
    for _ in range(steps):
        live = [r for r in level if level[r] < depth]
        choice = rng.random()
        if choice < 0.12:
            a = rng.choice([r for r in live if r in is_poly])
            op = rng.choice(["neg", "pos", "square"])
            sp = rng.choice(["operator", "numpy", "numpoly"])
            new = rec.do("unary", [a], op=op, spelling=sp)
            for r in new:
                level[r] = level[a] + 1
                is_poly.add(r)
            continue
        if choice < 0.24:
            a = rng.choice([r for r in live if r in is_poly])
            # exponent: python int, numpy int, or a broadcastable array of small non-negative ints
            shape_a = rec.obj(a).shape
            c = rng.random()
            if c < 0.5:
                e = rng.randint(0, 3)
            elif c < 0.65:
                e = numpy.int64(rng.randint(0, 3))
            else:
                eshape = gen.broadcast_partner(rng, shape_a)
                e = numpy.array([rng.randint(0, 2) for _ in range(int(numpy.prod(eshape, dtype=int)))],
                                dtype=int).reshape(eshape)
                if rng.random() < 0.3:
                    e = e.tolist()
            b = rec.new(e, note="exponent")
            sp = rng.choice(["operator", "numpy", "numpoly"])
            new = rec.do("arith", [a, b], op="pow", spelling=sp)
            for r in new:
                level[r] = level[a] + 1
                is_poly.add(r)
            continue
        a = rng.choice(live)
        b = rng.choice(live)
        if a not in is_poly and b not in is_poly:
            a = rng.choice([r for r in live if r in is_poly])
        op = rng.choice(["add", "sub", "mul", "mul", "add"])
        if rng.random() < 0.08:
            b = a                                   # x op x: cancellation / aliasing
        if rng.random() < 0.1 and a in is_poly:
            # cancelling construction: (a op b) - (a op b) later handled by sub of same register
            op = "sub"
            b = a
        if a not in is_poly and b not in is_poly:
            a = rng.choice([r for r in live if r in is_poly] or polys)
        sp = rng.choice(["operator", "operator", "numpy", "numpoly"])
        if sp == "numpy" and not (isinstance(rec.obj(a), numpoly.ndpoly) or isinstance(rec.obj(b), numpoly.ndpoly)):
            sp = "numpoly"
        new = rec.do("arith", [a, b], op=op, spelling=sp)
        for r in new:
            level[r] = max(level[a], level[b]) + 1
            is_poly.add(r)
    return rec.to_json()


def pow_sweep_trace(rng, tid, prop, index):
    """** with an array exponent on one (base shape, exponent shape) pair of the systematic list, both orders of ndim."""
    from .shape import distinct_poly_spec
    reset_options()
    rec = Recorder(tid, prop)
    pairs = gen.shape_pairs()
    s1, s2 = pairs[index % len(pairs)]
    base = rec.new(build_poly(distinct_poly_spec(rng, s1, names=(0, 1), kind="int")))
    size = int(numpy.prod(s2, dtype=int))
    e = numpy.array([rng.randint(0, 2) for _ in range(size)], dtype=int).reshape(s2)
    b = rec.new(e if rng.random() < 0.7 else e.tolist())
    rec.do("arith", [base, b], keep=False, op="pow", spelling=rng.choice(["operator", "numpy", "numpoly"]))
    for op in ("add", "mul", "sub"):
        other = rec.new(build_poly(distinct_poly_spec(rng, s2, names=(0, 2), kind="int", tag=3)))
        rec.do("arith", [base, other], keep=False, op=op, spelling=rng.choice(["operator", "numpy", "numpoly"]))
    return rec.to_json()


def generate(seed: int, n: int, prop: str = "C01", start: int = 0, **kw) -> list:
    out = []
    for i in range(start, start + n):
        rng = random.Random("ring/%d/%d" % (seed, i))
        if i % 3 == 0:
            out.append(pow_sweep_trace(rng, "%s-ring-s%d-%05d" % (prop, seed, i), prop, i // 3 + seed))
        else:
            out.append(one_trace(rng, "%s-ring-s%d-%05d" % (prop, seed, i), prop, **kw))
    return out
