------------------------------ MODULE MC_Attr ------------------------------
(***************************************************************************)
(* Bounded model for C03: every attribute triple with up to MaxRows rows   *)
(* over exponents 0..1 in two indeterminates (duplicate rows, all-zero     *)
(* rows, unused names, unsorted rows included) under every choice of the   *)
(* retain flags.  TLC checks that cleaning as specified is idempotent,     *)
(* never changes the polynomial denoted and drops exactly what it should;  *)
(* every triple is replayed on the three constructors.                     *)
(***************************************************************************)
EXTENDS PolyArray

CONSTANTS MaxRows

VARIABLES vec
RowSet == {<<0, 0>>, <<1, 0>>, <<0, 1>>, <<1, 1>>}
CoefChoice == {0, 2}
Triples == UNION {{[rows |-> r, coefs |-> c] : r \in [1..k -> RowSet], c \in [1..k -> CoefChoice]} : k \in 1..MaxRows}
FlagSet == {"none", "true", "false"}

Init == vec = [kind |-> "none"]
Next == \/ vec.kind = "none" /\ \E t \in Triples : vec' = [kind |-> "triple", rows |-> t.rows, coefs |-> t.coefs]
        \/ vec.kind = "triple" /\ \E rc \in FlagSet, rn \in FlagSet, grc \in BOOLEAN, grn \in BOOLEAN :
              vec' = [kind |-> "attr", rows |-> vec.rows, coefs |-> vec.coefs, rc |-> rc, rn |-> rn, grc |-> grc, grn |-> grn]
Spec == Init /\ [][Next]_vec

Names == <<0, 1>>
NumCoefs(v) == [r \in 1..Len(v.coefs) |-> <<NInt(v.coefs[r])>>]
Eff(flag, global) == IF flag = "none" THEN global ELSE flag = "true"
Cleaned(v) == CleanTriple(v.rows, NumCoefs(v), Names, 1, Eff(v.rc, v.grc), Eff(v.rn, v.grn))
Valid(v) == Distinct([i \in 1..Len(CleanKeep(v.rows, NumCoefs(v), Eff(v.rc, v.grc))) |->
                        v.rows[CleanKeep(v.rows, NumCoefs(v), Eff(v.rc, v.grc))[i]]])
\* denotation of the raw triple: duplicate rows are rejected, so only valid triples denote
RawDen(v) == LET keepAll == CleanTriple(v.rows, NumCoefs(v), Names, 1, TRUE, TRUE) IN TripleDen(keepAll, <<>>)
DenPreserved == (vec.kind = "attr" /\ Distinct(vec.rows)) => TripleDen(Cleaned(vec), <<>>).el = RawDen(vec).el
Idempotent == (vec.kind = "attr" /\ Valid(vec)) =>
   LET c == Cleaned(vec)
   IN CleanTriple(c.rows, c.coefs, c.names, 1, Eff(vec.rc, vec.grc), Eff(vec.rn, vec.grn)) = c
DropsExactly == (vec.kind = "attr" /\ Valid(vec)) =>
   LET c == Cleaned(vec)
       rc == Eff(vec.rc, vec.grc)  rn == Eff(vec.rn, vec.grn)
   IN /\ Len(c.rows) >= 1 /\ Len(c.names) >= 1
      /\ (rc => Len(c.rows) = Len(vec.rows))
      /\ (~rc => \A i \in 1..Len(c.rows) : ~RowIsZero(c.coefs, i) \/ RowIsConst(c.rows, i))
      /\ (rn => c.names = Names)
      /\ (~rn => \A j \in 1..Len(c.names) : (\E i \in 1..Len(c.rows) : c.rows[i][j] > 0) \/ Len(c.names) = 1)
=============================================================================
