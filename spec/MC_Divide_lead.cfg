SPECIFICATION Spec
CONSTANTS
  MaxE = 6
  Rule = "lead"
INVARIANT Identity
INVARIANT RemainderReduced
PROPERTY Terminates
CONSTRAINT Bound
CHECK_DEADLOCK FALSE
