SPECIFICATION Spec
CONSTANTS
  Tier = "thorough"
INVARIANT CodecInverse
INVARIANT GuaranteedRangeStorable
INVARIANT Injective
INVARIANT ProductKey
CHECK_DEADLOCK FALSE
